package main

import (
	"bytes"
	"errors"
	"fmt"
	gofs "io/fs"
	"os"
	"sort"
	"strings"
	"sync"
	"time"

	"github.com/hack-pad/hackpadfs"
	"github.com/hack-pad/hackpadfs/mount"
)

func init() { commands["C06"] = runC06 }

var mountPool = []string{"a", "ab", "a/b", "a/b/ab", "b"}

type mountWorld struct {
	m      *mount.FS
	points []string       // in insertion order
	parts  []hackpadfs.FS // parts[0] = root, parts[i+1] = FS mounted at points[i]
	flat   hackpadfs.FS   // the same tree in one plain in-memory FS

	setupErr string // building the mount table itself failed (a violation: every step of it is valid)
}

func isAncestorOrEqual(a, p string) bool { return a == p || a == "." || strings.HasPrefix(p, a+"/") }

func buildMountWorld(r *Rng) *mountWorld {
	k := r.Pick(1, 3, 4, 3, 2)
	chosen := map[string]bool{}
	for len(chosen) < k {
		chosen[mountPool[r.Intn(len(mountPool))]] = true
	}
	var pts []string
	for p := range chosen {
		pts = append(pts, p)
	}
	sort.Strings(pts)
	// random order, parents before children
	for i := len(pts) - 1; i > 0; i-- {
		j := r.Intn(i + 1)
		pts[i], pts[j] = pts[j], pts[i]
	}
	sort.SliceStable(pts, func(i, j int) bool { return strings.Count(pts[i], "/") < strings.Count(pts[j], "/") })
	root := newMem()
	m, _ := mount.NewFS(root)
	w := &mountWorld{m: m, parts: []hackpadfs.FS{root}, flat: newMem()}
	for _, p := range pts {
		if err := hackpadfs.MkdirAll(m, p, 0o755); err != nil {
			w.setupErr = fmt.Sprintf("MkdirAll(%q) through the mount FS with mount points %v: %v", p, w.points, err)
			return w
		}
		_ = hackpadfs.MkdirAll(w.flat, p, 0o755)
		inner := newMem()
		if err := m.AddMount(p, inner); err != nil {
			w.setupErr = fmt.Sprintf("AddMount(%q) on an existing directory with mount points %v: %v", p, w.points, err)
			return w
		}
		w.points = append(w.points, p)
		w.parts = append(w.parts, inner)
	}
	return w
}

// owner returns the index of the constituent a flat path belongs to and the path inside it.
func (w *mountWorld) owner(p string) (int, string) {
	best, bi := "", 0
	for i, mp := range w.points {
		if (p == mp || strings.HasPrefix(p, mp+"/")) && len(mp) > len(best) {
			best, bi = mp, i+1
		}
	}
	if bi == 0 {
		return 0, p
	}
	if p == best {
		return bi, "."
	}
	return bi, p[len(best)+1:]
}

func (w *mountWorld) isPoint(p string) bool {
	for _, mp := range w.points {
		if mp == p {
			return true
		}
	}
	return false
}

func (w *mountWorld) coversPoint(p string) bool {
	for _, mp := range w.points {
		if isAncestorOrEqual(p, mp) {
			return true
		}
	}
	return false
}

// expectedParts derives, from the flat reference, what every constituent must contain.
func (w *mountWorld) partsDiff(cands []string) string {
	flat := Snapshot(w.flat, cands)
	want := make([]map[string]SnapEntry, len(w.parts))
	for i := range want {
		want[i] = map[string]SnapEntry{}
	}
	for _, e := range flat {
		if e.Path == "." {
			continue
		}
		i, rel := w.owner(e.Path)
		if rel != "." {
			want[i][rel] = e
		}
		if w.isPoint(e.Path) {
			// the directory the mount point lives in belongs to the parent constituent
			pi, prel := w.owner(parentOf(e.Path))
			base := e.Path[strings.LastIndex(e.Path, "/")+1:]
			key := base
			if prel != "." {
				key = prel + "/" + base
			}
			want[pi][key] = SnapEntry{Path: key, Mode: 1 << 31, MT: -2}
		}
	}
	for i, part := range w.parts {
		got := Snapshot(part, cands)
		seen := map[string]bool{}
		for _, g := range got {
			if g.Path == "." {
				continue
			}
			seen[g.Path] = true
			x, ok := want[i][g.Path]
			if !ok {
				return fmt.Sprintf("constituent %d (%s) holds %q which does not belong there", i, w.partName(i), g.Path)
			}
			gd, gp := kindPermSpecial(g.Mode)
			xd, xp := kindPermSpecial(x.Mode)
			if gd != xd {
				return fmt.Sprintf("constituent %d (%s): %q has the wrong kind", i, w.partName(i), g.Path)
			}
			if x.MT == -2 {
				continue // underlying directory of a mount point: existence and kind only
			}
			if gp != xp || (!gd && !bytes.Equal(g.Bytes, x.Bytes)) {
				return fmt.Sprintf("constituent %d (%s): %q is (%04o,%v), expected (%04o,%v)", i, w.partName(i), g.Path, gp, g.Bytes, xp, x.Bytes)
			}
		}
		for p := range want[i] {
			if !seen[p] {
				return fmt.Sprintf("constituent %d (%s) lacks %q", i, w.partName(i), p)
			}
		}
	}
	return ""
}

func (w *mountWorld) partName(i int) string {
	if i == 0 {
		return "root"
	}
	return "mounted at " + w.points[i-1]
}

// runC06AddMount: AddMount of candidate points (existing directories, files, missing paths, existing mount points,
// directories that exist only in the root although the path routes into a mount, invalid names) on prepared
// compositions: the answer and the routing of every candidate path afterwards, against the model.
func runC06AddMount(r *Rng, n, idBase int) {
	cands := candidatePaths(nsNames, 3)
	for k := 0; k < n; k++ {
		w := buildMountWorld(r)
		c := &Case{ID: idBase + k, Kind: "addmount", Check: "C06_addmount_check", CType: "C06_addmount_case"}
		c.Cells = []string{"addmount"}
		if w.setupErr != "" {
			c.fail(w.setupErr, "setup:failed")
			emit(c)
			continue
		}
		mw := &World{FS: w.m}
		var opsC []string
		for _, o := range genNS(r, false) {
			if o.Kind == "rename" || o.Kind == "remove" || o.Kind == "removeall" || o.Kind == "open" || strings.HasPrefix(o.Kind, "h:") {
				continue // (removing around mount points is C03's finding; handles are outside the mount model)
			}
			if len(opsC) >= 8 {
				break
			}
			mw.Apply(o)
			opsC = append(opsC, o.coq())
		}
		mw.CloseAll()
		// a directory that exists in the ROOT file system below a mount point (the mounted one does not have it)
		if len(w.points) > 0 && r.Intn(2) == 0 {
			_ = hackpadfs.MkdirAll(w.parts[0], w.points[0]+"/b", 0o755)
		}
		var p string
		switch r.Pick(6, 2, 2, 1) {
		case 0:
			p = cands[r.Intn(len(cands))]
		case 1:
			if len(w.points) > 0 {
				p = w.points[r.Intn(len(w.points))] + []string{"", "/b", "/a", "/ab/a"}[r.Intn(4)]
			} else {
				p = "a"
			}
		case 2:
			p = []string{"", ".", "/a", "a/", "a//b", "../a", "a/./b"}[r.Intn(7)]
		default:
			p = "nodir/" + cands[r.Intn(len(cands))]
		}
		if len(w.points) > 0 && r.Intn(2) == 0 && !strings.HasPrefix(p, "nodir") {
			// (the extra root-only directory is not known to the model: keep the new point away from it)
		}
		rootOnly := len(w.points) > 0 && strings.HasPrefix(p, w.points[0]+"/b")
		_, viewErr := hackpadfs.Stat(w.m, p) // what the composition itself shows at p before the call
		inner := newMem()
		err := w.m.AddMount(p, inner)
		obs := "None"
		if err != nil {
			obs = "(Some " + canonErr(err).Cls + ")"
		} else {
			w.points = append(w.points, p)
			w.parts = append(w.parts, inner)
		}
		c.Text = []string{fmt.Sprintf("mount points %v, %d preparing operations, AddMount(%q) -> %v", w.points, len(opsC), p, err)}
		if err != nil {
			if ce := canonErr(err); ce.Kind != "P" || ce.Path != p {
				c.fail(c.Text[0]+": the error is not a *PathError naming the mount point", "addmount:error-type")
			}
		}
		var routes []string
		for _, q := range cands {
			fs, sub := w.m.Mount(q)
			idx := -1
			for i, part := range w.parts {
				if part == fs {
					idx = i
				}
			}
			routes = append(routes, fmt.Sprintf("(%s, %s, %s)", cStr(q), cNat(idx), cStr(sub)))
		}
		// MountPoints() lists exactly the points that were accepted
		{
			var got []string
			for _, mp := range w.m.MountPoints() {
				got = append(got, mp.Path)
			}
			want := append([]string(nil), w.points...)
			sort.Strings(got)
			sort.Strings(want)
			if fmt.Sprint(got) != fmt.Sprint(want) {
				c.fail(fmt.Sprintf("%s: MountPoints() = %v, the accepted mount points are %v", c.Text[0], got, want), "addmount:mountpoints")
			}
		}
		var ptsC []string
		npts := len(w.points)
		if err == nil {
			npts--
		}
		for _, q := range w.points[:npts] {
			ptsC = append(ptsC, cStr(q))
		}
		if !rootOnly {
			c.Coq = fmt.Sprintf("(%s, %s, %s, %s, %s)", cList(ptsC), cList(opsC), cStr(p), obs, cList(routes))
		} else {
			// the mounted file system has no such directory although the root has: the mount must be refused
			c.Trivial = true
			if err == nil && viewErr != nil {
				c.fail(c.Text[0]+": accepted, although the directory exists only in the root file system and the path routes into the file system mounted at "+w.points[0], "addmount:covered-accepted")
			}
		}
		emit(c)
	}
}

func runC06(r *Rng, n int, replay string) {
	defer runC06AddMount(r, n/3+10, 400000)
	defer runC06Faults(100000)
	defer runC06XFault(200000)
	defer runC06Modes(300000)
	defer runC06Bare(500000)
	defer runC06Helpers(600000)
	cands := candidatePaths(nsNames, 4)
	for id := 0; id < n; id++ {
		w := buildMountWorld(r)
		c := &Case{ID: id}
		if w.setupErr != "" {
			c.Text = append(c.Text, w.setupErr)
			c.fail(w.setupErr, "setup:failed")
			emit(c)
			continue
		}
		c.Text = append(c.Text, fmt.Sprintf("mount points (insertion order) %v", w.points))
		cells := map[string]bool{fmt.Sprintf("mounts%d", len(w.points)): true}
		mw := &World{FS: w.m}
		fw := &World{FS: w.flat}
		var opsC, items []string
		ops := genNS(r, false)
		if len(w.points) > 0 {
			// a regular file renamed onto a name that IS a mount point: routed to the mounted file system's root (and refused
			// there), never to the directory the mount point covers
			pt := w.points[r.Intn(len(w.points))]
			ops = append(ops, Op{Kind: "writefile", P: "zq", Data: []byte{5, 6}, Perm: 0o644}, Op{Kind: "rename", P: "zq", Q: pt})
		}
		for i, o := range ops {
			// operations that remove or rename a mount point or a directory containing one are C03's finding; not generated here
			if (o.Kind == "remove" || o.Kind == "removeall") && w.coversPoint(o.P) {
				continue
			}
			if o.Kind == "rename" && (w.coversPoint(o.P) || (w.coversPoint(o.Q) && !w.isPoint(o.Q))) {
				continue
			}
			before := make([][]SnapEntry, len(w.parts))
			for k, p := range w.parts {
				before[k] = Snapshot(p, cands)
			}
			a := mw.Apply(o)
			c.Text = append(c.Text, fmt.Sprintf("%s -> %s", o, a))
			cells[o.Kind+"/"+outcome(a)] = true
			opsC = append(opsC, o.coq())
			var snaps []string
			for _, p := range w.parts {
				snaps = append(snaps, snapCoqFS(Snapshot(p, cands)))
			}
			items = append(items, cPair(a.coq(), cList(snaps)))
			fail := func(sig, f string, args ...interface{}) {
				c.fail(fmt.Sprintf("mounts %v, step %d (%s -> %s): ", w.points, i, o, a)+fmt.Sprintf(f, args...), sig)
			}
			if a.Kind == "panic" {
				fail(o.Kind+":panic", "panicked")
				break
			}
			if a.Kind == "err" && a.Err.Cls == "ENOSYS" {
				// unsupported (renaming a directory across mounts): nothing may have changed
				for k, p := range w.parts {
					if d := snapDiffExact(before[k], Snapshot(p, cands)); d != "" {
						fail(o.Kind+":enosys-changed", "failed with ErrNotImplemented but changed constituent %d: %s", k, d)
					}
				}
				continue
			}
			b := fw.Apply(o)
			onPoint := w.isPoint(o.P) || (o.Kind == "rename" && w.isPoint(o.Q))
			crossMount := false
			if o.Kind == "rename" {
				i1, _ := w.owner(o.P)
				i2, _ := w.owner(o.Q)
				crossMount = i1 != i2
			}
			if o.Kind == "readdir" && !a.failed() && !b.failed() {
				// the listing of a directory that holds a mount point comes from the file system the directory lives in:
				// the entry for the mount point describes the covered directory there (its mode is not the mounted root's)
				strip := func(x Obs) Obs {
					es := append([]Entry(nil), x.Entries...)
					for k := range es {
						if w.isPoint(joinP(o.P, es[k].Name)) {
							es[k].Mode &= 1 << 31
						}
					}
					x.Entries = es
					return x
				}
				a, b = strip(a), strip(b)
			}
			switch {
			case a.failed() != b.failed():
				fail(o.Kind+":success", "the same operation applied to the routed file system directly (one flat tree): %s", b)
			case !a.failed() && !onPoint && a.coq() != b.coq():
				fail(o.Kind+":data", "result differs from the direct one: %s", b)
			case a.failed() && a.Err.coq() != b.Err.coq() && !onPoint && !crossMount:
				fail(o.Kind+":error", "error differs from the direct one: %s", b)
			case a.failed() && crossMount && (a.Err.Kind != "L" || a.Err.Old != o.P || a.Err.New != o.Q):
				// across two mounts there is no single file system to compare the error class with (the copy fails where it
				// fails); it must still be a LinkError carrying the caller's two names
				fail(o.Kind+":error-names", "a failed rename across mounts must return a LinkError with the caller's names, got %s", a)
			}
			if d := w.partsDiff(cands); d != "" {
				fail(o.Kind+":routing", "%s", d)
				break
			}
		}
		mw.CloseAll()
		fw.CloseAll()
		for k := range cells {
			c.Cells = append(c.Cells, k)
		}
		var tab []string
		for i, p := range w.points {
			tab = append(tab, cPair(cStr(p), cNat(i+1)))
		}
		if c.Oracle == "" {
			var ptsC []string
			for _, p := range w.points {
				ptsC = append(ptsC, cStr(p))
			}
			c.Coq = fmt.Sprintf("(%s, %s, %s)", cList(ptsC), cList(opsC), cList(items))
		}
		emit(c)
		// Mount(path) itself for every candidate path, against the model's routing
		if id%4 == 0 {
			var routes []string
			for _, p := range cands {
				fs, sub := w.m.Mount(p)
				idx := -1
				for k, part := range w.parts {
					if part == fs {
						idx = k
					}
				}
				routes = append(routes, fmt.Sprintf("(%s, %s, %s)", cStr(p), cNat(idx), cStr(sub)))
			}
			rc := &Case{ID: id, Kind: "route", Trivial: false, Check: "C06_route_check", CType: "C06_route_case"}
			rc.Text = []string{fmt.Sprintf("Mount(p) for %d paths with mount points %v", len(cands), w.points)}
			rc.Coq = cPair(cList(tab), cList(routes))
			emit(rc)
		}
	}
	// AddMount guards and concurrent AddMount of one point
	for t := 0; t < n/4+8; t++ {
		c := &Case{ID: n + t, Kind: "addmount"}
		root := newMem()
		_ = hackpadfs.MkdirAll(root, "a/b", 0o755)
		_ = hackpadfs.WriteFullFile(root, "f", []byte{1}, 0o644)
		m, _ := mount.NewFS(root)
		expectErr := func(p, cls string) {
			err := m.AddMount(p, newMem())
			if err == nil || classOf(err) != cls {
				c.fail(fmt.Sprintf("AddMount(%q) = %v, expected %s", p, err, cls), "addmount:guard:"+p)
			}
		}
		expectErr("nope", "ENOENT")
		expectErr("f", "ENOTDIR")
		expectErr("a/nope", "ENOENT")
		k := 2 + t%5
		var wg sync.WaitGroup
		start := make(chan struct{})
		okCount := 0
		var mu sync.Mutex
		for g := 0; g < k; g++ {
			wg.Add(1)
			go func() {
				defer wg.Done()
				<-start
				if err := m.AddMount("a", newMem()); err == nil {
					mu.Lock()
					okCount++
					mu.Unlock()
				} else if classOf(err) != "EEXIST" {
					mu.Lock()
					okCount += 100
					mu.Unlock()
				}
			}()
		}
		close(start)
		wg.Wait()
		c.Text = []string{fmt.Sprintf("%d concurrent AddMount(\"a\"): %d succeeded", k, okCount)}
		c.Cells = []string{fmt.Sprintf("addmount/k%d", k)}
		if okCount != 1 {
			c.fail(c.Text[0]+" (exactly one must succeed, the others fail with ErrExist)", "addmount:concurrent")
		}
		expectErr("a", "EEXIST")
		if err := m.AddMount("a/b", newMem()); err == nil || classOf(err) != "ENOENT" {
			// a/b lives in the root FS, but "a" is now a mount: the directory must exist in the mounted FS
			c.fail(fmt.Sprintf("AddMount(a/b) below the fresh mount a = %v, expected ENOENT", err), "addmount:guard:nested")
		}
		emit(c)
	}
}

// ---- a failure injected into every primitive call of a cross-mount Rename (copy + remove) ----

type c06FaultScenario struct {
	key      string
	name     string
	old, new string
	prep     func(root, a, b hackpadfs.FS)
}

func c06FaultScenarios() []c06FaultScenario {
	data := make([]byte, 1500)
	for i := range data {
		data[i] = byte(i*7 + 3)
	}
	base := func(root, a, b hackpadfs.FS) {
		_ = hackpadfs.Mkdir(root, "a", 0o755)
		_ = hackpadfs.Mkdir(root, "b", 0o755)
		_ = hackpadfs.WriteFullFile(root, "r", data[:700], 0o640)
		_ = hackpadfs.WriteFullFile(a, "x", data, 0o600)
		_ = hackpadfs.WriteFullFile(a, "y", []byte("keep me"), 0o644) // same relative name as a destination in another mount
		_ = hackpadfs.Mkdir(a, "z", 0o755)
		_ = hackpadfs.WriteFullFile(b, "old", []byte("previous"), 0o644)
	}
	return []c06FaultScenario{
		{"new", "mount a -> mount b, new name", "a/x", "b/y", base},
		{"existing", "mount a -> mount b, onto an existing file", "a/x", "b/old", base},
		{"dirname", "mount a -> mount b, a name that is a directory in the source mount", "a/x", "b/z", base},
		{"toroot", "mount a -> root", "a/x", "r2", base},
		{"fromroot", "root -> mount b", "r", "b/y", base},
	}
}

func runC06Faults(idBase int) {
	cands := candidatePaths([]string{"a", "b", "r", "r2", "x", "y", "z", "old"}, 2)
	id := idBase
	for _, sc := range c06FaultScenarios() {
		build := func(failAt int, calls *int, log *[]string) (*mount.FS, []hackpadfs.FS) {
			root, a, b := newMem(), newMem(), newMem()
			sc.prep(root, a, b)
			m, _ := mount.NewFS(faultFull{base: root, calls: calls, failAt: failAt, log: log})
			if err := m.AddMount("a", faultFull{base: a, calls: calls, failAt: failAt, log: log}); err != nil {
				panic(err)
			}
			if err := m.AddMount("b", faultFull{base: b, calls: calls, failAt: failAt, log: log}); err != nil {
				panic(err)
			}
			return m, []hackpadfs.FS{root, a, b}
		}
		// failure-free run: how many primitive calls the set-up and the rename make, and what the result is
		calls := 0
		var log []string
		m0, parts0 := build(-1, &calls, &log)
		setup := calls
		err0 := m0.Rename(sc.old, sc.new)
		total := calls
		var wantAfter [][]SnapEntry
		for _, p := range parts0 {
			wantAfter = append(wantAfter, Snapshot(p, cands))
		}
		for k := setup; k < total; k++ {
			c := &Case{ID: id, Kind: "rename-fault"}
			id++
			n := 0
			m, parts := build(k, &n, nil)
			var before [][]SnapEntry
			for _, p := range parts {
				before = append(before, Snapshot(p, cands))
			}
			var err error
			func() {
				defer func() {
					if e := recover(); e != nil {
						err = fmt.Errorf("panic: %v", e)
						c.fail(fmt.Sprintf("%s: Rename(%q, %q) with primitive call %d (%s) failing panicked: %v", sc.name, sc.old, sc.new, k, log[k], e), "rename-fault:panic")
					}
				}()
				err = m.Rename(sc.old, sc.new)
			}()
			c.Text = []string{fmt.Sprintf("%s: Rename(%q, %q), primitive call %d (%s) fails -> %v   (without the failure: %v)", sc.name, sc.old, sc.new, k, log[k], err, err0)}
			c.Cells = []string{"rename-fault/" + strings.Fields(log[k])[0]}
			for i, p := range parts {
				after := Snapshot(p, cands)
				switch {
				case err != nil:
					if d := snapDiffExact(before[i], after); d != "" {
						c.fail(fmt.Sprintf("%s: the failed Rename changed %s: %s", c.Text[0], []string{"the root FS", "the FS mounted at a", "the FS mounted at b"}[i], d), "rename-fault:"+sc.key+":changed:"+strings.Fields(log[k])[0])
					}
				default:
					if d := snapDiffExact(wantAfter[i], after); d != "" {
						c.fail(fmt.Sprintf("%s: Rename reported success but %s is not what a complete rename leaves: %s", c.Text[0], []string{"the root FS", "the FS mounted at a", "the FS mounted at b"}[i], d), "rename-fault:"+sc.key+":silent:"+strings.Fields(log[k])[0])
					}
				}
			}
			emit(c)
		}
	}
}

// runC06XFault: the scenario of Properties/C06.v's refutation theorems, run against the code: mounts a and b over
// key-value file systems on plain stores, a/x = [1 2 3], b/old = [9 9]; the k-th next call of ONE constituent's store
// fails during Rename(a/x, b/new | b/old).  Result, source bytes and destination bytes are compared with the model
// (C06_xfault_check); the non-atomic outcomes are the known findings, identified by the oracle stream above.
func runC06XFault(idBase int) {
	id := idBase
	for _, old := range []bool{false, true} {
		for part := 1; part <= 2; part++ {
			for k := 0; k < 12; k++ {
				root, _ := newKVPlain()
				a, psa := newKVPlain()
				b, psb := newKVPlain()
				m, _ := mount.NewFS(root)
				for i, pt := range []string{"a", "b"} {
					if err := hackpadfs.MkdirAll(m, pt, 0o755); err != nil {
						panic(err)
					}
					if err := m.AddMount(pt, []hackpadfs.FS{a, b}[i]); err != nil {
						panic(err)
					}
				}
				if err := hackpadfs.WriteFullFile(m, "a/x", []byte{1, 2, 3}, 0o644); err != nil {
					panic(err)
				}
				if err := hackpadfs.WriteFullFile(m, "b/old", []byte{9, 9}, 0o600); err != nil {
					panic(err)
				}
				ps := []*plainStore{psa, psb}[part-1]
				ps.failAt = ps.calls + k
				dname := map[bool]string{false: "new", true: "old"}[old]
				var err error
				panicked := ""
				func() {
					defer func() {
						if e := recover(); e != nil {
							panicked = fmt.Sprint(e)
						}
					}()
					err = m.Rename("a/x", "b/"+dname)
				}()
				psa.failAt, psb.failAt = -1, -1
				get := func(fs hackpadfs.FS, p string) (string, string) {
					d, e := hackpadfs.ReadFile(fs, p)
					if e != nil {
						return "None", "absent"
					}
					return "(Some " + cBytes(d) + ")", fmt.Sprint(d)
				}
				sc, st := get(a, "x")
				dc, dt := get(b, dname)
				c := &Case{ID: id, Kind: "xfault", Trivial: false}
				id++
				c.Cells = []string{fmt.Sprintf("xfault/old=%v/part=%d", old, part)}
				c.Text = []string{fmt.Sprintf("mounts a, b over key-value FSs; a/x=[1 2 3], b/old=[9 9]; store call +%d of mount %q fails during Rename(a/x, b/%s) -> %v; afterwards a/x=%s b/%s=%s",
					k, []string{"a", "b"}[part-1], dname, err, st, dname, dt)}
				if panicked != "" {
					c.fail(c.Text[0]+": panicked: "+panicked, "xfault:panic")
				}
				c.Coq = fmt.Sprintf("(%s, %s, %s, (%s, %s, %s))", cBool(old), cNat(part), cNat(k), cBool(err == nil), sc, dc)
				c.CType = "C06_xfault_case"
				c.Check = "C06_xfault_check"
				emit(c)
			}
		}
	}
}

// runC06Modes: a file renamed across two mounts arrives with the source's whole mode -- permission bits and
// setuid/setgid/sticky -- onto a new name and onto an existing file, between mounts and between root and a mount.
func runC06Modes(idBase int) {
	id := idBase
	modes := []gofs.FileMode{0o644 | gofs.ModeSetuid, 0o600 | gofs.ModeSetgid, 0o755 | gofs.ModeSticky, 0o4 | gofs.ModeSetuid | gofs.ModeSticky, 0}
	routes := [][2]string{{"a/x", "b/y"}, {"a/x", "r"}, {"r0", "b/y"}}
	for _, mode := range modes {
		for _, rt := range routes {
			for _, existing := range []bool{false, true} {
				root, a, b := newMem(), newMem(), newMem()
				m, _ := mount.NewFS(root)
				for i, pt := range []string{"a", "b"} {
					_ = hackpadfs.Mkdir(m, pt, 0o755)
					if err := m.AddMount(pt, []hackpadfs.FS{a, b}[i]); err != nil {
						panic(err)
					}
				}
				_ = hackpadfs.WriteFullFile(m, rt[0], []byte{1, 2, 3}, 0o666)
				_ = hackpadfs.Chmod(m, rt[0], mode)
				if existing {
					_ = hackpadfs.WriteFullFile(m, rt[1], []byte{9}, 0o640)
				}
				srcInfo, serr := hackpadfs.Stat(m, rt[0])
				c := &Case{ID: id, Kind: "xmode", Trivial: true}
				id++
				c.Cells = []string{fmt.Sprintf("xmode/existing=%v", existing)}
				if serr != nil {
					panic(serr)
				}
				err := m.Rename(rt[0], rt[1])
				c.Text = []string{fmt.Sprintf("mounts a, b; %s has mode %v; Rename(%s, %s) (destination exists: %v) -> %v", rt[0], srcInfo.Mode(), rt[0], rt[1], existing, err)}
				if err != nil {
					c.fail(c.Text[0]+": failed", "xmode:failed")
				} else {
					dst, derr := hackpadfs.Stat(m, rt[1])
					_, goneErr := hackpadfs.Stat(m, rt[0])
					data, _ := hackpadfs.ReadFile(m, rt[1])
					switch {
					case derr != nil:
						c.fail(c.Text[0]+": the destination does not exist afterwards", "xmode:missing")
					case dst.Mode() != srcInfo.Mode():
						c.fail(fmt.Sprintf("%s: the destination's mode is %v, the source's was %v", c.Text[0], dst.Mode(), srcInfo.Mode()), "xmode:mode")
					case !bytes.Equal(data, []byte{1, 2, 3}):
						c.fail(fmt.Sprintf("%s: the destination holds %v", c.Text[0], data), "xmode:bytes")
					case goneErr == nil:
						c.fail(c.Text[0]+": the source still exists", "xmode:source-left")
					}
				}
				emit(c)
			}
		}
	}
}

// runC06Bare: "its result is what the same operation yields when applied there directly" also when the mounted file
// system fails with an error value that is neither a *PathError nor a *LinkError (a custom FS may return anything):
// the k-th primitive call of the mounted FS fails with a bare error; the same operation is applied through the mount
// and directly to an identical FS with the same failure, and the two results must agree on success/failure and on
// matching the injected error.
func runC06Bare(idBase int) {
	id := idBase
	type bop struct {
		name string
		run  func(fs hackpadfs.FS, pre string) error
	}
	ops := []bop{
		{"Open(x)", func(fs hackpadfs.FS, pre string) error {
			f, err := fs.Open(pre + "x")
			if err == nil && f == nil {
				return fmt.Errorf("nil file and nil error")
			}
			if err == nil {
				_ = f.Close()
			}
			return err
		}},
		{"OpenFile(x)", func(fs hackpadfs.FS, pre string) error {
			f, err := hackpadfs.OpenFile(fs, pre+"x", hackpadfs.FlagReadWrite, 0)
			if err == nil && f == nil {
				return fmt.Errorf("nil file and nil error")
			}
			if err == nil {
				_ = f.Close()
			}
			return err
		}},
		{"Stat(x)", func(fs hackpadfs.FS, pre string) error { _, err := hackpadfs.Stat(fs, pre+"x"); return err }},
		{"Mkdir(n)", func(fs hackpadfs.FS, pre string) error { return hackpadfs.Mkdir(fs, pre+"n", 0o755) }},
		{"MkdirAll(n/m)", func(fs hackpadfs.FS, pre string) error { return hackpadfs.MkdirAll(fs, pre+"n/m", 0o755) }},
		{"Remove(x)", func(fs hackpadfs.FS, pre string) error { return hackpadfs.Remove(fs, pre+"x") }},
		{"Rename(x, w)", func(fs hackpadfs.FS, pre string) error { return hackpadfs.Rename(fs, pre+"x", pre+"w") }},
		{"Chmod(x)", func(fs hackpadfs.FS, pre string) error { return hackpadfs.Chmod(fs, pre+"x", 0o600) }},
		{"ReadFile(x)", func(fs hackpadfs.FS, pre string) error { _, err := hackpadfs.ReadFile(fs, pre+"x"); return err }},
		{"ReadDir(z)", func(fs hackpadfs.FS, pre string) error { _, err := hackpadfs.ReadDir(fs, pre+"z"); return err }},
		{"WriteFullFile(v)", func(fs hackpadfs.FS, pre string) error {
			return hackpadfs.WriteFullFile(fs, pre+"v", []byte("abc"), 0o644)
		}},
	}
	fill := func() hackpadfs.FS {
		a := newMem()
		_ = hackpadfs.WriteFullFile(a, "x", []byte("hello"), 0o644)
		_ = hackpadfs.Mkdir(a, "z", 0o755)
		_ = hackpadfs.WriteFullFile(a, "z/k", []byte("k"), 0o644)
		return a
	}
	class := func(err error) string {
		switch {
		case err == nil:
			return "ok"
		case errors.Is(err, errInjected):
			return "injected"
		default:
			return "other-error"
		}
	}
	for _, op := range ops {
		// which kinds of primitive call the operation makes, from a failure-free direct run
		var log []string
		n0 := 0
		supported := true
		func() {
			defer func() {
				if recover() != nil {
					supported = false // the fault wrapper offers an interface the in-memory FS below it lacks
				}
			}()
			_ = op.run(faultFull{base: fill(), calls: &n0, failAt: -1, log: &log}, "")
		}()
		if !supported {
			continue
		}
		seen := map[string]bool{}
		for _, l := range log {
			prim := strings.Fields(l)[0]
			if seen[prim] {
				continue
			}
			seen[prim] = true
			c := &Case{ID: id, Kind: "bare-error", Trivial: true}
			id++
			c.Cells = []string{"bare-error/" + op.name + "/" + prim}
			nd, hd := 0, 0
			derr := op.run(faultFull{base: fill(), calls: &nd, failAt: -1, bare: true, failOn: prim, hits: &hd}, "")
			// through the mount (AddMount's mount-point check reads the ROOT, not the mounted FS)
			root := newMem()
			_ = hackpadfs.Mkdir(root, "a", 0o755)
			m2, _ := mount.NewFS(root)
			nm, hm := 0, 0
			if err := m2.AddMount("a", faultFull{base: fill(), calls: &nm, failAt: -1, bare: true, failOn: prim, hits: &hm}); err != nil {
				panic(err)
			}
			var merr error
			func() {
				defer func() {
					if e := recover(); e != nil {
						merr = fmt.Errorf("panic: %v", e)
						c.fail(fmt.Sprintf("%s through the mount with every %s of the mounted FS failing panicked: %v", op.name, prim, e), "bare-error:panic")
					}
				}()
				merr = op.run(m2, "a/")
			}()
			c.Text = []string{fmt.Sprintf("every %s of the FS mounted at a fails with a bare error: %s directly -> %v; through the mount -> %v", prim, op.name, derr, merr)}
			if hd > 0 && hm > 0 && class(derr) != class(merr) {
				// (compared only when the failure was actually injected in both runs)
				c.fail(c.Text[0], "bare-error:"+op.name+":"+prim+":"+class(derr)+"-vs-"+class(merr))
			}
			emit(c)
		}
	}
}

// runC06Helpers: "its result is what the same operation yields when applied there directly" for the package helpers the
// generic alphabet does not contain (Lstat, LstatOrStat, Chown, Chtimes, Symlink, Create, ReadFile, ReadDir ...), on a
// mounted in-memory FS (which has no Lstat, Symlink or Chown of its own) and on a mounted os FS holding a symbolic link.
func runC06Helpers(idBase int) {
	id := idBase
	info := func(i hackpadfs.FileInfo, err error) string {
		if err != nil {
			return "err " + classOf(err)
		}
		if i.Mode()&hackpadfs.ModeSymlink != 0 {
			// (a link's size is the length of its target's OS path, which contains the temporary directory's name)
			return fmt.Sprintf("%s %v dir=%v", i.Name(), i.Mode(), i.IsDir())
		}
		return fmt.Sprintf("%s %v size=%d dir=%v", i.Name(), i.Mode(), i.Size(), i.IsDir())
	}
	errOnly := func(err error) string {
		if err != nil {
			return "err " + classOf(err)
		}
		return "ok"
	}
	type hop struct {
		name string
		run  func(fs hackpadfs.FS, pre string) string
	}
	var ops []hop
	for _, p := range []string{"x", "z", "l", "missing", "z/k"} {
		p := p
		ops = append(ops,
			hop{"Lstat(" + p + ")", func(fs hackpadfs.FS, pre string) string { return info(hackpadfs.Lstat(fs, pre+p)) }},
			hop{"Stat(" + p + ")", func(fs hackpadfs.FS, pre string) string { return info(hackpadfs.Stat(fs, pre+p)) }},
			hop{"LstatOrStat(" + p + ")", func(fs hackpadfs.FS, pre string) string { return info(hackpadfs.LstatOrStat(fs, pre+p)) }},
			hop{"Chown(" + p + ")", func(fs hackpadfs.FS, pre string) string {
				return errOnly(hackpadfs.Chown(fs, pre+p, os.Getuid(), os.Getgid()))
			}},
			hop{"Chtimes(" + p + ")", func(fs hackpadfs.FS, pre string) string {
				e := hackpadfs.Chtimes(fs, pre+p, time.Unix(1000, 0), time.Unix(2000, 0))
				i, _ := hackpadfs.Stat(fs, pre+p)
				if e != nil || i == nil {
					return errOnly(e)
				}
				return fmt.Sprintf("ok mtime=%d", i.ModTime().Unix())
			}},
			hop{"ReadFile(" + p + ")", func(fs hackpadfs.FS, pre string) string {
				b, e := hackpadfs.ReadFile(fs, pre+p)
				if e != nil {
					return errOnly(e)
				}
				return fmt.Sprintf("ok %v", b)
			}},
			hop{"ReadDir(" + p + ")", func(fs hackpadfs.FS, pre string) string {
				es, e := hackpadfs.ReadDir(fs, pre+p)
				if e != nil {
					return errOnly(e)
				}
				var names []string
				for _, en := range es {
					names = append(names, en.Name()+":"+en.Type().String())
				}
				return fmt.Sprintf("ok %v", names)
			}},
		)
	}
	ops = append(ops,
		hop{"Symlink(x, n)", func(fs hackpadfs.FS, pre string) string {
			e := hackpadfs.Symlink(fs, "x", pre+"n")
			return errOnly(e) + " then Lstat(n): " + info(hackpadfs.Lstat(fs, pre+"n"))
		}},
		hop{"Create(n)", func(fs hackpadfs.FS, pre string) string {
			f, e := hackpadfs.Create(fs, pre+"n")
			if e == nil {
				_ = f.Close()
			}
			return errOnly(e) + " then Stat(n): " + info(hackpadfs.Stat(fs, pre+"n"))
		}},
		hop{"Create(x)", func(fs hackpadfs.FS, pre string) string {
			f, e := hackpadfs.Create(fs, pre+"x")
			if e == nil {
				_ = f.Close()
			}
			return errOnly(e) + " then Stat(x): " + info(hackpadfs.Stat(fs, pre+"x"))
		}},
	)
	for _, kind := range []string{"mem", "os"} {
		build := func() (hackpadfs.FS, func()) {
			var fs hackpadfs.FS
			done := func() {}
			if kind == "mem" {
				fs = newMem()
			} else {
				fs, done = newOSWorld()
			}
			_ = hackpadfs.WriteFullFile(fs, "x", []byte("hello"), 0o640)
			_ = hackpadfs.Mkdir(fs, "z", 0o755)
			_ = hackpadfs.WriteFullFile(fs, "z/k", []byte("k"), 0o600)
			_ = hackpadfs.Symlink(fs, "x", "l") // (os only; the in-memory FS has no links)
			return fs, done
		}
		for _, op := range ops {
			c := &Case{ID: id, Kind: "helper-parity", Trivial: true}
			id++
			c.Cells = []string{"helper-parity/" + kind}
			direct, done1 := build()
			var dres, mres string
			func() {
				defer func() {
					if e := recover(); e != nil {
						dres = fmt.Sprintf("panic: %v", e)
					}
				}()
				dres = op.run(direct, "")
			}()
			done1()
			mounted, done2 := build()
			root := newMem()
			_ = hackpadfs.Mkdir(root, "a", 0o755)
			m, _ := mount.NewFS(root)
			if err := m.AddMount("a", mounted); err != nil {
				panic(err)
			}
			func() {
				defer func() {
					if e := recover(); e != nil {
						mres = fmt.Sprintf("panic: %v", e)
					}
				}()
				mres = op.run(m, "a/")
			}()
			done2()
			c.Text = []string{fmt.Sprintf("[%s FS mounted at a] %s directly -> %s; through the mount -> %s", kind, op.name, dres, mres)}
			if dres != mres {
				c.fail(c.Text[0], "helper-parity:"+kind+":"+strings.SplitN(op.name, "(", 2)[0])
			}
			emit(c)
		}
	}
}
