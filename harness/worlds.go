package main

import (
	"bytes"
	"fmt"
	gofs "io/fs"
	"os"
	"strings"
	"syscall"

	"github.com/hack-pad/hackpadfs"
	"github.com/hack-pad/hackpadfs/mem"
	hpos "github.com/hack-pad/hackpadfs/os"
)

func init() { syscall.Umask(0) }

func newMem() hackpadfs.FS {
	fs, err := mem.NewFS()
	if err != nil {
		panic(err)
	}
	return fs
}

// newOSWorld returns an os.FS rooted in a fresh temporary directory and its cleanup.
func newOSWorld() (hackpadfs.FS, func()) {
	dir, err := os.MkdirTemp("", "hpverif-os-")
	if err != nil {
		panic(err)
	}
	if err := os.Chmod(dir, 0o777); err != nil {
		panic(err)
	}
	sub, err := hpos.NewFS().Sub(strings.TrimPrefix(dir, "/"))
	if err != nil {
		panic(err)
	}
	return sub, func() {
		_ = chmodAll(dir)
		_ = os.RemoveAll(dir)
	}
}

func chmodAll(dir string) error {
	return gofs.WalkDir(os.DirFS(dir), ".", func(p string, d gofs.DirEntry, err error) error {
		if err == nil && d.IsDir() {
			_ = os.Chmod(dir+"/"+p, 0o777)
		}
		return nil
	})
}

// Step is one executed operation with both worlds' results.
type Step struct {
	Op       Op
	Impl     Obs
	ImplSnap []SnapEntry
	Ref      Obs
	RefSnap  []SnapEntry
}

const permMask = 0o777

func kindPerm(mode uint32) (bool, uint32) {
	return gofs.FileMode(mode).IsDir(), mode & permMask
}

// kindPermSpecial: permission bits and setuid/setgid/sticky (for comparisons between two file systems of this library)
func kindPermSpecial(mode uint32) (bool, uint32) {
	return gofs.FileMode(mode).IsDir(), mode & (permMask | uint32(gofs.ModeSetuid|gofs.ModeSetgid|gofs.ModeSticky))
}

// snapDiffOS compares two snapshots the way C01 demands: same paths, kinds, permission bits,
// regular-file bytes and explicit mtimes; the root's own mode is outside the comparison.
func snapDiffOS(a, b []SnapEntry) string {
	am := map[string]SnapEntry{}
	for _, e := range a {
		am[e.Path] = e
	}
	bm := map[string]SnapEntry{}
	for _, e := range b {
		bm[e.Path] = e
	}
	for p, x := range am {
		y, ok := bm[p]
		if !ok {
			return fmt.Sprintf("path %q exists only in the implementation", p)
		}
		xd, xp := kindPerm(x.Mode)
		yd, yp := kindPerm(y.Mode)
		if xd != yd {
			return fmt.Sprintf("path %q: kind differs", p)
		}
		if p != "." && xp != yp {
			return fmt.Sprintf("path %q: permission bits %04o vs os %04o", p, xp, yp)
		}
		if !xd && !bytes.Equal(x.Bytes, y.Bytes) {
			return fmt.Sprintf("path %q: bytes %v vs os %v", p, x.Bytes, y.Bytes)
		}
		if p != "." && y.MT >= 0 && x.MT != y.MT { // a time os still holds from Chtimes
			return fmt.Sprintf("path %q: explicit mtime %d vs os %d", p, x.MT, y.MT)
		}
	}
	for p := range bm {
		if _, ok := am[p]; !ok {
			return fmt.Sprintf("path %q exists only in os", p)
		}
	}
	return ""
}

// dataDiffOS compares the data a successful operation returned.
func dataDiffOS(op Op, a, b Obs) string {
	if a.Kind != b.Kind {
		return fmt.Sprintf("result kind %s vs os %s", a.Kind, b.Kind)
	}
	switch a.Kind {
	case "info":
		ad, ap := kindPerm(a.Mode)
		bd, bp := kindPerm(b.Mode)
		if a.Name != b.Name && op.P != "." {
			return fmt.Sprintf("info name %q vs os %q", a.Name, b.Name)
		}
		if ad != bd || (op.P != "." && ap != bp) {
			return fmt.Sprintf("info mode %v vs os %v", gofs.FileMode(a.Mode), gofs.FileMode(b.Mode))
		}
		if !ad && a.Size != b.Size {
			return fmt.Sprintf("info size %d vs os %d", a.Size, b.Size)
		}
		if op.P != "." && b.MT >= 0 && a.MT != b.MT {
			return fmt.Sprintf("info mtime %d vs os %d", a.MT, b.MT)
		}
	case "entries":
		if len(a.Entries) != len(b.Entries) {
			return fmt.Sprintf("listing %v vs os %v", a.Entries, b.Entries)
		}
		for i := range a.Entries {
			ad, _ := kindPerm(a.Entries[i].Mode)
			bd, _ := kindPerm(b.Entries[i].Mode)
			if a.Entries[i].Name != b.Entries[i].Name || ad != bd {
				return fmt.Sprintf("listing %v vs os %v", a.Entries, b.Entries)
			}
		}
	case "bytes":
		if !bytes.Equal(a.Bytes, b.Bytes) {
			return fmt.Sprintf("bytes %v vs os %v", a.Bytes, b.Bytes)
		}
	}
	return ""
}
