package main

import (
	"errors"
	"fmt"
	gofs "io/fs"
	"os"
	"path"
	"strings"
	"time"

	"github.com/hack-pad/hackpadfs"
	hpos "github.com/hack-pad/hackpadfs/os"
)

func init() { commands["C09"] = runC09 }

// winVolumeName: drive letter or UNC share (what filepath.VolumeName does on windows, for the shapes used here)
func winVolumeName(p string) string {
	if len(p) >= 2 && p[1] == ':' && (p[0] >= 'a' && p[0] <= 'z' || p[0] >= 'A' && p[0] <= 'Z') {
		return p[:2]
	}
	if strings.HasPrefix(p, `\\`) {
		rest := p[2:]
		i := strings.Index(rest, `\`)
		if i > 0 {
			j := strings.Index(rest[i+1:], `\`)
			if j < 0 {
				return p
			}
			if j > 0 {
				return p[:2+i+1+j]
			}
		}
	}
	return ""
}

func nixVolumeName(string) string { return "" }

func optCoq(s string, ok bool) string {
	if !ok {
		return "None"
	}
	return "(Some " + cStr(s) + ")"
}

func genFSName(r *Rng) string {
	alpha := []string{"a", "b", "ab", ".", "..", "", "a.b", "x y", "é", "a\\b", "c:", "\uFFFD", "\uFEFFa"}
	n := r.Range(1, 4)
	var parts []string
	for i := 0; i < n; i++ {
		w := r.Pick(6, 6, 4, 1, 1, 1, 2, 1, 1, 1, 1)
		parts = append(parts, alpha[w])
	}
	s := strings.Join(parts, "/")
	if r.Intn(12) == 0 {
		s = "/" + s
	}
	if r.Intn(12) == 0 {
		s += "/"
	}
	return s
}

func swapCase(s string) string {
	b := []byte(s)
	for i, ch := range b {
		switch {
		case ch >= 'a' && ch <= 'z':
			b[i] = ch - 32
		case ch >= 'A' && ch <= 'Z':
			b[i] = ch + 32
		}
	}
	return string(b)
}

func runC09(r *Rng, n int, replay string) {
	type conv struct {
		goos string
		sep  rune
		vols []string
		vn   func(string) string
	}
	convs := []conv{
		{"linux", '/', []string{""}, nixVolumeName},
		{"windows", '\\', []string{"", "C:", "D:", `\\host\share`}, winVolumeName},
	}
	id := 0
	emitC := func(c *Case) { c.ID = id; id++; emit(c) }
	for it := 0; it < n; it++ {
		cv := convs[it%2]
		vol := cv.vols[r.Intn(len(cv.vols))]
		win := cv.goos == "windows"
		// root from 0..3 Sub calls
		fs := hpos.NewFSVerif("", vol)
		nsub := r.Intn(4)
		for i := 0; i < nsub; i++ {
			dir := genFSName(r)
			before := fs.RootVerif()
			sub, err := fs.Sub(dir)
			c := &Case{Kind: "sub", Trivial: true}
			c.Text = []string{fmt.Sprintf("Sub(root=%q, %q) -> %v", before, dir, err)}
			if err != nil {
				if gofs.ValidPath(dir) {
					c.fail(c.Text[0]+": a valid directory was refused", "sub:refused")
				}
				c.Coq = fmt.Sprintf("CSub %s %s None", cStr(before), cStr(dir))
			} else {
				if !gofs.ValidPath(dir) {
					c.fail(c.Text[0]+": an invalid directory was accepted", "sub:accepted")
				}
				fs = sub.(*hpos.FS)
				// the new root is exactly the old root joined with dir ("" stays the top)
				want := path.Join(before, dir)
				if want == "." {
					want = ""
				}
				if got := fs.RootVerif(); got != want {
					c.fail(fmt.Sprintf("%s: the new root is %q, the old root joined with the directory is %q", c.Text[0], got, want), "sub:root")
				}
				c.Coq = fmt.Sprintf("CSub %s %s (Some %s)", cStr(before), cStr(dir), cStr(fs.RootVerif()))
			}
			emitC(c)
		}
		root := fs.RootVerif()
		sep := string(cv.sep)
		effVol := vol
		if win && vol == "" {
			effVol = "C:"
		}
		rootOS := effVol + sep
		if root != "" && root != "." {
			rootOS += strings.ReplaceAll(root, "/", sep)
		}
		hdr := fmt.Sprintf("[%s sep=%q vol=%q root=%q]", cv.goos, sep, vol, root)
		for k := 0; k < 6; k++ {
			name := genFSName(r)
			osPath, err := fs.ToOSPathVerif(cv.goos, cv.sep, name)
			c := &Case{Kind: "to/" + cv.goos}
			c.Text = []string{fmt.Sprintf("%s ToOSPath(%q) -> %q, %v", hdr, name, osPath, err)}
			c.Cells = []string{fmt.Sprintf("to/%s/valid=%v", cv.goos, gofs.ValidPath(name))}
			// (a name containing the OS separator cannot be represented on that OS: refused like an invalid one)
			nameOK := gofs.ValidPath(name) && !(cv.sep != '/' && (strings.ContainsRune(name, cv.sep) || strings.ContainsRune(root, cv.sep)))
			if !nameOK {
				if err == nil {
					c.fail(c.Text[0]+": an invalid name was mapped to an OS path", "to:accepted-invalid")
				} else if classOf(err) != "EINVAL" {
					c.fail(c.Text[0]+": error does not match ErrInvalid", "to:class")
				}
			} else if err != nil {
				c.fail(c.Text[0]+": a valid name was refused", "to:refused-valid")
			} else {
				want := strings.TrimRight(rootOS, sep) + sep + strings.ReplaceAll(name, "/", sep)
				if name == "." {
					want = rootOS
				}
				if osPath != want {
					c.fail(fmt.Sprintf("%s: expected exactly root joined with the name: %q", c.Text[0], want), "to:not-root-joined")
				}
				// inverse
				back, berr := fs.FromOSPathVerif(cv.goos, cv.sep, cv.vn, osPath)
				if berr != nil || back != name {
					c.fail(fmt.Sprintf("%s: FromOSPath(ToOSPath(n)) = %q, %v", c.Text[0], back, berr), "roundtrip:from-to")
				}
			}
			c.Coq = fmt.Sprintf("CTo %s %s %s %s %s %s", cBool(win), cN(uint64(cv.sep)), cStr(vol), cStr(root), cStr(name), optCoq(osPath, err == nil))
			emitC(c)
			// OS path candidates derived from this name
			base := osPath
			if err != nil {
				base = rootOS + sep + strings.ReplaceAll(strings.Trim(name, "/"), "/", sep)
			}
			cands := []string{base, base + sep, base + sep + "..", base + sep + sep + "x", rootOS + "x" + sep + "a", rootOS, rootOS + sep,
				strings.TrimPrefix(base, effVol), "Z:" + strings.TrimPrefix(base, effVol), strings.TrimLeft(strings.TrimPrefix(base, effVol), sep),
				rootOS + sep + ".." + sep + "x", rootOS + sep + "." + sep + "a",
				// an empty first element: a doubled separator right after the volume
				effVol + sep + sep + "x" + sep + "a", effVol + sep + sep + "a", effVol + sep + strings.TrimPrefix(base, effVol),
				effVol + sep + sep + sep + "b",
				// the same volume in another letter case is a different volume name to this code
				swapCase(effVol) + strings.TrimPrefix(base, effVol), swapCase(effVol) + sep + "a"}
			p := cands[r.Intn(len(cands))]
			pvol := cv.vn(p)
			abs := strings.HasPrefix(strings.TrimPrefix(p, pvol), sep) // filepath.IsAbs for the convention
			if !abs {
				if !win {
					// the public method (this platform's convention) must refuse relative paths
					_, perr := fs.FromOSPath(p)
					rc := &Case{Kind: "from/relative", Trivial: true}
					rc.Text = []string{fmt.Sprintf("%s FromOSPath(%q) -> %v", hdr, p, perr)}
					if perr == nil {
						rc.fail(rc.Text[0]+": accepted a relative path", "from:relative")
					}
					emitC(rc)
				}
				continue
			}
			got, ferr := fs.FromOSPathVerif(cv.goos, cv.sep, cv.vn, p)
			fc := &Case{Kind: "from/" + cv.goos}
			fc.Text = []string{fmt.Sprintf("%s FromOSPath(%q) [volume %q] -> %q, %v", hdr, p, pvol, got, ferr)}
			fc.Cells = []string{fmt.Sprintf("from/%s/ok=%v", cv.goos, ferr == nil)}
			if ferr == nil {
				if !gofs.ValidPath(got) {
					fc.fail(fc.Text[0]+": returned a string that is not a valid FS path", "from:invalid-result")
				} else {
					// the result names a file inside the root: it maps to an OS path below the root again
					again, aerr := fs.ToOSPathVerif(cv.goos, cv.sep, got)
					rootOK := !(cv.sep != '/' && strings.ContainsRune(root, cv.sep))
					if rootOK && (aerr != nil || !(again == rootOS || strings.HasPrefix(again, strings.TrimRight(rootOS, sep)+sep))) {
						fc.fail(fmt.Sprintf("%s: ToOSPath(FromOSPath(p)) = %q, %v", fc.Text[0], again, aerr), "roundtrip:to-from")
					}
				}
				if !strings.HasPrefix(p, strings.TrimRight(rootOS, sep)+sep) && p != rootOS && p != strings.TrimRight(rootOS, sep) {
					fc.fail(fc.Text[0]+": accepted a path outside the root", "from:outside-root")
				}
			}
			fc.Coq = fmt.Sprintf("CFrom %s %s %s %s %s %s %s", cBool(win), cN(uint64(cv.sep)), cStr(vol), cStr(root), cStr(pvol), cStr(p), optCoq(got, ferr == nil))
			emitC(fc)
		}
	}
	// errors coming back from the OS name the caller's FS-relative path (real os.FS under 0..2 Sub roots)
	for k := 0; k < 12; k++ {
		base, done := newOSWorld()
		var fs hackpadfs.FS = base
		prefix := ""
		for d := 0; d < k%3; d++ {
			_ = hackpadfs.Mkdir(fs, "s", 0o755)
			if k%2 == 1 {
				// the parent has already reported an error when the view is taken (nothing it remembered may leak into the view)
				_, _ = hackpadfs.Stat(fs, "nope-before-sub")
			}
			sub, err := hackpadfs.Sub(fs, "s")
			if err != nil {
				panic(err)
			}
			fs = sub
			prefix += "s/"
		}
		_ = hackpadfs.WriteFullFile(fs, "f", []byte{1}, 0o644)
		_ = hackpadfs.Mkdir(fs, "d", 0o755)
		w := &World{FS: fs}
		for _, o := range []Op{{Kind: "stat", P: "nope"}, {Kind: "mkdir", P: "d", Perm: 0o755}, {Kind: "remove", P: "d/x"}, {Kind: "readdir", P: "f"}, {Kind: "rename", P: "nope", Q: "d/y"},
			{Kind: "openclose", P: "f/x", Flag: 0}, {Kind: "stat", P: "."}, {Kind: "mkdir", P: ".", Perm: 0o755}, {Kind: "chmod", P: "d/nope", Perm: 0o600}, {Kind: "readfile", P: "d"}} {
			a := w.Apply(o)
			c := &Case{Kind: "oserr"}
			c.Text = []string{fmt.Sprintf("[os.FS under %d Sub roots] %s -> %s", k%3, o, a)}
			c.Cells = []string{"oserr/" + o.Kind}
			if a.Kind == "err" {
				switch {
				case a.Err.Kind == "P" && a.Err.Path != o.P:
					c.fail(c.Text[0]+": error path is not the caller's name", "oserr:path")
				case a.Err.Kind == "L" && (a.Err.Old != o.P || a.Err.New != o.Q):
					c.fail(c.Text[0]+": error paths are not the caller's names", "oserr:path")
				case a.Err.Kind == "B":
					c.fail(c.Text[0]+": untyped error", "oserr:type")
				}
				if strings.Contains(a.Err.Path+a.Err.Old+a.Err.New, os.TempDir()) {
					c.fail(c.Text[0]+": error leaks an absolute OS path", "oserr:absolute")
				}
			}
			emitC(c)
		}
		w.CloseAll()
		done()
		_ = prefix
	}
	// invalid names are refused before any OS call, by EVERY method of the os-backed FS and for either name of a
	// two-name method: the error matches ErrInvalid, names the caller's name(s), and the directory is untouched
	type call struct {
		name string
		two  bool
		run  func(fs hackpadfs.FS, a, b string) error
	}
	calls := []call{
		{"Open", false, func(fs hackpadfs.FS, a, _ string) error { f, err := fs.Open(a); closeIf(f); return err }},
		{"OpenFile", false, func(fs hackpadfs.FS, a, _ string) error {
			f, err := hackpadfs.OpenFile(fs, a, hackpadfs.FlagReadWrite|hackpadfs.FlagCreate, 0o644)
			closeIf(f)
			return err
		}},
		{"Create", false, func(fs hackpadfs.FS, a, _ string) error { f, err := hackpadfs.Create(fs, a); closeIf(f); return err }},
		{"Mkdir", false, func(fs hackpadfs.FS, a, _ string) error { return hackpadfs.Mkdir(fs, a, 0o755) }},
		{"MkdirAll", false, func(fs hackpadfs.FS, a, _ string) error { return hackpadfs.MkdirAll(fs, a, 0o755) }},
		{"Remove", false, func(fs hackpadfs.FS, a, _ string) error { return hackpadfs.Remove(fs, a) }},
		{"RemoveAll", false, func(fs hackpadfs.FS, a, _ string) error { return hackpadfs.RemoveAll(fs, a) }},
		{"Stat", false, func(fs hackpadfs.FS, a, _ string) error { _, err := hackpadfs.Stat(fs, a); return err }},
		{"Lstat", false, func(fs hackpadfs.FS, a, _ string) error { _, err := hackpadfs.Lstat(fs, a); return err }},
		{"Chmod", false, func(fs hackpadfs.FS, a, _ string) error { return hackpadfs.Chmod(fs, a, 0o600) }},
		{"Chown", false, func(fs hackpadfs.FS, a, _ string) error { return hackpadfs.Chown(fs, a, os.Getuid(), os.Getgid()) }},
		{"Chtimes", false, func(fs hackpadfs.FS, a, _ string) error {
			return hackpadfs.Chtimes(fs, a, time.Unix(1000, 0), time.Unix(1000, 0))
		}},
		{"ReadDir", false, func(fs hackpadfs.FS, a, _ string) error { _, err := hackpadfs.ReadDir(fs, a); return err }},
		{"ReadFile", false, func(fs hackpadfs.FS, a, _ string) error { _, err := hackpadfs.ReadFile(fs, a); return err }},
		{"WriteFullFile", false, func(fs hackpadfs.FS, a, _ string) error { return hackpadfs.WriteFullFile(fs, a, []byte{7}, 0o644) }},
		{"Sub", false, func(fs hackpadfs.FS, a, _ string) error { _, err := hackpadfs.Sub(fs, a); return err }},
		{"Rename", true, func(fs hackpadfs.FS, a, b string) error { return hackpadfs.Rename(fs, a, b) }},
		{"Symlink", true, func(fs hackpadfs.FS, a, b string) error { return hackpadfs.Symlink(fs, a, b) }},
	}
	invalid := []string{"", "/", "/f", "f/", "d//x", "./f", "d/.", "..", "../f", "d/../f", "d/./x", "\xff", "d/\xff"}
	for depth := 0; depth < 2; depth++ {
		for _, cl := range calls {
			for _, bad := range invalid {
				for pos := 0; pos < 2; pos++ {
					if pos == 1 && !cl.two {
						continue
					}
					base, done := newOSWorld()
					var fs hackpadfs.FS = base
					if depth == 1 {
						_ = hackpadfs.Mkdir(fs, "s", 0o755)
						sub, err := hackpadfs.Sub(fs, "s")
						if err != nil {
							panic(err)
						}
						fs = sub
					}
					_ = hackpadfs.WriteFullFile(fs, "f", []byte{1}, 0o644)
					_ = hackpadfs.Mkdir(fs, "d", 0o755)
					cands := candidatePaths([]string{"f", "d", "x", "s", "link"}, 2)
					before := Snapshot(base, cands)
					a, b := bad, "link"
					if pos == 1 {
						a, b = "f", bad
					}
					var err error
					func() {
						defer func() {
							if e := recover(); e != nil {
								err = fmt.Errorf("panic: %v", e)
							}
						}()
						err = cl.run(fs, a, b)
					}()
					c := &Case{Kind: "osinvalid", Trivial: true}
					c.Cells = []string{"osinvalid/" + cl.name}
					if cl.two {
						c.Text = []string{fmt.Sprintf("[os.FS under %d Sub roots] %s(%q, %q) -> %v", depth, cl.name, a, b, err)}
					} else {
						c.Text = []string{fmt.Sprintf("[os.FS under %d Sub roots] %s(%q) -> %v", depth, cl.name, a, err)}
					}
					switch {
					case err == nil:
						c.fail(c.Text[0]+": an invalid name was accepted", "osinvalid:accepted:"+cl.name)
					case !errors.Is(err, hackpadfs.ErrInvalid):
						c.fail(c.Text[0]+": the error does not match ErrInvalid (the name went to the OS, or was rewritten)", "osinvalid:class:"+cl.name)
					default:
						ce := canonErr(err)
						if ce.Kind == "P" && ce.Path != a || ce.Kind == "L" && (ce.Old != a || ce.New != b) {
							c.fail(c.Text[0]+": the error does not name the caller's name(s)", "osinvalid:path:"+cl.name)
						}
					}
					if d := snapDiffExact(before, Snapshot(base, cands)); d != "" {
						c.fail(c.Text[0]+": changed the directory: "+d, "osinvalid:changed:"+cl.name)
					}
					done()
					emitC(c)
				}
			}
		}
	}
}

func closeIf(f hackpadfs.File) {
	if f != nil {
		_ = f.Close()
	}
}
