package main

import (
	"fmt"
	gofs "io/fs"
	"os"
	"path"
	"strings"

	"github.com/hack-pad/hackpadfs"
	hpos "github.com/hack-pad/hackpadfs/os"
)

func init() { commands["C09"] = runC09 }

// winVolumeName: drive letter or UNC share (what filepath.VolumeName does on windows, for the shapes used here)
func winVolumeName(p string) string {
	if len(p) >= 2 && p[1] == ':' && (p[0] >= 'a' && p[0] <= 'z' || p[0] >= 'A' && p[0] <= 'Z') {
		return p[:2]
	}
	if strings.HasPrefix(p, `\\`) {
		rest := p[2:]
		i := strings.Index(rest, `\`)
		if i > 0 {
			j := strings.Index(rest[i+1:], `\`)
			if j < 0 {
				return p
			}
			if j > 0 {
				return p[:2+i+1+j]
			}
		}
	}
	return ""
}

func nixVolumeName(string) string { return "" }

func optCoq(s string, ok bool) string {
	if !ok {
		return "None"
	}
	return "(Some " + cStr(s) + ")"
}

func genFSName(r *Rng) string {
	alpha := []string{"a", "b", "ab", ".", "..", "", "a.b", "x y", "é", "a\\b", "c:"}
	n := r.Range(1, 4)
	var parts []string
	for i := 0; i < n; i++ {
		w := r.Pick(6, 6, 4, 1, 1, 1, 2, 1, 1, 1, 1)
		parts = append(parts, alpha[w])
	}
	s := strings.Join(parts, "/")
	if r.Intn(12) == 0 {
		s = "/" + s
	}
	if r.Intn(12) == 0 {
		s += "/"
	}
	return s
}

func swapCase(s string) string {
	b := []byte(s)
	for i, ch := range b {
		switch {
		case ch >= 'a' && ch <= 'z':
			b[i] = ch - 32
		case ch >= 'A' && ch <= 'Z':
			b[i] = ch + 32
		}
	}
	return string(b)
}

func runC09(r *Rng, n int, replay string) {
	type conv struct {
		goos string
		sep  rune
		vols []string
		vn   func(string) string
	}
	convs := []conv{
		{"linux", '/', []string{""}, nixVolumeName},
		{"windows", '\\', []string{"", "C:", "D:", `\\host\share`}, winVolumeName},
	}
	id := 0
	emitC := func(c *Case) { c.ID = id; id++; emit(c) }
	for it := 0; it < n; it++ {
		cv := convs[it%2]
		vol := cv.vols[r.Intn(len(cv.vols))]
		win := cv.goos == "windows"
		// root from 0..3 Sub calls
		fs := hpos.NewFSVerif("", vol)
		nsub := r.Intn(4)
		for i := 0; i < nsub; i++ {
			dir := genFSName(r)
			before := fs.RootVerif()
			sub, err := fs.Sub(dir)
			c := &Case{Kind: "sub", Trivial: true}
			c.Text = []string{fmt.Sprintf("Sub(root=%q, %q) -> %v", before, dir, err)}
			if err != nil {
				if gofs.ValidPath(dir) {
					c.fail(c.Text[0]+": a valid directory was refused", "sub:refused")
				}
				c.Coq = fmt.Sprintf("CSub %s %s None", cStr(before), cStr(dir))
			} else {
				if !gofs.ValidPath(dir) {
					c.fail(c.Text[0]+": an invalid directory was accepted", "sub:accepted")
				}
				fs = sub.(*hpos.FS)
				// the new root is exactly the old root joined with dir ("" stays the top)
				want := path.Join(before, dir)
				if want == "." {
					want = ""
				}
				if got := fs.RootVerif(); got != want {
					c.fail(fmt.Sprintf("%s: the new root is %q, the old root joined with the directory is %q", c.Text[0], got, want), "sub:root")
				}
				c.Coq = fmt.Sprintf("CSub %s %s (Some %s)", cStr(before), cStr(dir), cStr(fs.RootVerif()))
			}
			emitC(c)
		}
		root := fs.RootVerif()
		sep := string(cv.sep)
		effVol := vol
		if win && vol == "" {
			effVol = "C:"
		}
		rootOS := effVol + sep
		if root != "" && root != "." {
			rootOS += strings.ReplaceAll(root, "/", sep)
		}
		hdr := fmt.Sprintf("[%s sep=%q vol=%q root=%q]", cv.goos, sep, vol, root)
		for k := 0; k < 6; k++ {
			name := genFSName(r)
			osPath, err := fs.ToOSPathVerif(cv.goos, cv.sep, name)
			c := &Case{Kind: "to/" + cv.goos}
			c.Text = []string{fmt.Sprintf("%s ToOSPath(%q) -> %q, %v", hdr, name, osPath, err)}
			c.Cells = []string{fmt.Sprintf("to/%s/valid=%v", cv.goos, gofs.ValidPath(name))}
			// (a name containing the OS separator cannot be represented on that OS: refused like an invalid one)
			nameOK := gofs.ValidPath(name) && !(cv.sep != '/' && (strings.ContainsRune(name, cv.sep) || strings.ContainsRune(root, cv.sep)))
			if !nameOK {
				if err == nil {
					c.fail(c.Text[0]+": an invalid name was mapped to an OS path", "to:accepted-invalid")
				} else if classOf(err) != "EINVAL" {
					c.fail(c.Text[0]+": error does not match ErrInvalid", "to:class")
				}
			} else if err != nil {
				c.fail(c.Text[0]+": a valid name was refused", "to:refused-valid")
			} else {
				want := strings.TrimRight(rootOS, sep) + sep + strings.ReplaceAll(name, "/", sep)
				if name == "." {
					want = rootOS
				}
				if osPath != want {
					c.fail(fmt.Sprintf("%s: expected exactly root joined with the name: %q", c.Text[0], want), "to:not-root-joined")
				}
				// inverse
				back, berr := fs.FromOSPathVerif(cv.goos, cv.sep, cv.vn, osPath)
				if berr != nil || back != name {
					c.fail(fmt.Sprintf("%s: FromOSPath(ToOSPath(n)) = %q, %v", c.Text[0], back, berr), "roundtrip:from-to")
				}
			}
			c.Coq = fmt.Sprintf("CTo %s %s %s %s %s %s", cBool(win), cN(uint64(cv.sep)), cStr(vol), cStr(root), cStr(name), optCoq(osPath, err == nil))
			emitC(c)
			// OS path candidates derived from this name
			base := osPath
			if err != nil {
				base = rootOS + sep + strings.ReplaceAll(strings.Trim(name, "/"), "/", sep)
			}
			cands := []string{base, base + sep, base + sep + "..", base + sep + sep + "x", rootOS + "x" + sep + "a", rootOS, rootOS + sep,
				strings.TrimPrefix(base, effVol), "Z:" + strings.TrimPrefix(base, effVol), strings.TrimLeft(strings.TrimPrefix(base, effVol), sep),
				rootOS + sep + ".." + sep + "x", rootOS + sep + "." + sep + "a",
				// an empty first element: a doubled separator right after the volume
				effVol + sep + sep + "x" + sep + "a", effVol + sep + sep + "a", effVol + sep + strings.TrimPrefix(base, effVol),
				effVol + sep + sep + sep + "b",
				// the same volume in another letter case is a different volume name to this code
				swapCase(effVol) + strings.TrimPrefix(base, effVol), swapCase(effVol) + sep + "a"}
			p := cands[r.Intn(len(cands))]
			pvol := cv.vn(p)
			abs := strings.HasPrefix(strings.TrimPrefix(p, pvol), sep) // filepath.IsAbs for the convention
			if !abs {
				if !win {
					// the public method (this platform's convention) must refuse relative paths
					_, perr := fs.FromOSPath(p)
					rc := &Case{Kind: "from/relative", Trivial: true}
					rc.Text = []string{fmt.Sprintf("%s FromOSPath(%q) -> %v", hdr, p, perr)}
					if perr == nil {
						rc.fail(rc.Text[0]+": accepted a relative path", "from:relative")
					}
					emitC(rc)
				}
				continue
			}
			got, ferr := fs.FromOSPathVerif(cv.goos, cv.sep, cv.vn, p)
			fc := &Case{Kind: "from/" + cv.goos}
			fc.Text = []string{fmt.Sprintf("%s FromOSPath(%q) [volume %q] -> %q, %v", hdr, p, pvol, got, ferr)}
			fc.Cells = []string{fmt.Sprintf("from/%s/ok=%v", cv.goos, ferr == nil)}
			if ferr == nil {
				if !gofs.ValidPath(got) {
					fc.fail(fc.Text[0]+": returned a string that is not a valid FS path", "from:invalid-result")
				} else {
					// the result names a file inside the root: it maps to an OS path below the root again
					again, aerr := fs.ToOSPathVerif(cv.goos, cv.sep, got)
					rootOK := !(cv.sep != '/' && strings.ContainsRune(root, cv.sep))
					if rootOK && (aerr != nil || !(again == rootOS || strings.HasPrefix(again, strings.TrimRight(rootOS, sep)+sep))) {
						fc.fail(fmt.Sprintf("%s: ToOSPath(FromOSPath(p)) = %q, %v", fc.Text[0], again, aerr), "roundtrip:to-from")
					}
				}
				if !strings.HasPrefix(p, strings.TrimRight(rootOS, sep)+sep) && p != rootOS && p != strings.TrimRight(rootOS, sep) {
					fc.fail(fc.Text[0]+": accepted a path outside the root", "from:outside-root")
				}
			}
			fc.Coq = fmt.Sprintf("CFrom %s %s %s %s %s %s %s", cBool(win), cN(uint64(cv.sep)), cStr(vol), cStr(root), cStr(pvol), cStr(p), optCoq(got, ferr == nil))
			emitC(fc)
		}
	}
	// errors coming back from the OS name the caller's FS-relative path (real os.FS under 0..2 Sub roots)
	for k := 0; k < 12; k++ {
		base, done := newOSWorld()
		var fs hackpadfs.FS = base
		prefix := ""
		for d := 0; d < k%3; d++ {
			_ = hackpadfs.Mkdir(fs, "s", 0o755)
			sub, err := hackpadfs.Sub(fs, "s")
			if err != nil {
				panic(err)
			}
			fs = sub
			prefix += "s/"
		}
		_ = hackpadfs.WriteFullFile(fs, "f", []byte{1}, 0o644)
		_ = hackpadfs.Mkdir(fs, "d", 0o755)
		w := &World{FS: fs}
		for _, o := range []Op{{Kind: "stat", P: "nope"}, {Kind: "mkdir", P: "d", Perm: 0o755}, {Kind: "remove", P: "d/x"}, {Kind: "readdir", P: "f"}, {Kind: "rename", P: "nope", Q: "d/y"},
			{Kind: "openclose", P: "f/x", Flag: 0}, {Kind: "stat", P: "."}, {Kind: "mkdir", P: ".", Perm: 0o755}, {Kind: "chmod", P: "d/nope", Perm: 0o600}, {Kind: "readfile", P: "d"}} {
			a := w.Apply(o)
			c := &Case{Kind: "oserr"}
			c.Text = []string{fmt.Sprintf("[os.FS under %d Sub roots] %s -> %s", k%3, o, a)}
			c.Cells = []string{"oserr/" + o.Kind}
			if a.Kind == "err" {
				switch {
				case a.Err.Kind == "P" && a.Err.Path != o.P:
					c.fail(c.Text[0]+": error path is not the caller's name", "oserr:path")
				case a.Err.Kind == "L" && (a.Err.Old != o.P || a.Err.New != o.Q):
					c.fail(c.Text[0]+": error paths are not the caller's names", "oserr:path")
				case a.Err.Kind == "B":
					c.fail(c.Text[0]+": untyped error", "oserr:type")
				}
				if strings.Contains(a.Err.Path+a.Err.Old+a.Err.New, os.TempDir()) {
					c.fail(c.Text[0]+": error leaks an absolute OS path", "oserr:absolute")
				}
			}
			emitC(c)
		}
		w.CloseAll()
		done()
		_ = prefix
	}
}
