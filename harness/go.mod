module hpverif

go 1.18

require github.com/hack-pad/hackpadfs v0.0.0

replace github.com/hack-pad/hackpadfs => /repo
