package main

import (
	"bytes"
	"errors"
	"fmt"
	"io"
	gofs "io/fs"
	"math"
	"sort"
	"strings"
	"sync"
	"sync/atomic"
	"time"

	"github.com/hack-pad/hackpadfs"
	"github.com/hack-pad/hackpadfs/cache"
	"github.com/hack-pad/hackpadfs/mem"
)

func init() {
	commands["C10"] = runC10
	commands["C11"] = runC11
}

// ---- instrumented source FS: counts and can fail/pause reads ----

type srcFS struct {
	fs        hackpadfs.FS
	opens     map[string]*int64
	reads     map[string]*int64
	mu        sync.Mutex
	failRead  int64 // fail the k-th Read of failName (-1 never)
	failName  string
	pause     func(name string, readIdx int64) // called before every Read
	copying   int64
	maxCopies int64
	failOpen  string            // the next Open of this name fails (once)
	onFail    func(name string) // called when a Read failure is injected
	noSeek    bool              // handles expose Read, Stat, ReadDir and Close only (a source that cannot seek)
	failDir   string            // listing this directory of the source fails
}

// plainFile hides every optional method of the source handle but ReadDir
type plainFile struct{ f *srcFile }

func (p plainFile) Read(b []byte) (int, error)                  { return p.f.Read(b) }
func (p plainFile) Stat() (hackpadfs.FileInfo, error)           { return p.f.Stat() }
func (p plainFile) Close() error                                { return p.f.Close() }
func (p plainFile) ReadDir(n int) ([]hackpadfs.DirEntry, error) { return p.f.ReadDir(n) }

func newSrcFS(fs hackpadfs.FS) *srcFS {
	return &srcFS{fs: fs, opens: map[string]*int64{}, reads: map[string]*int64{}, failRead: -1}
}

func (s *srcFS) counter(m map[string]*int64, name string) *int64 {
	s.mu.Lock()
	defer s.mu.Unlock()
	if m[name] == nil {
		m[name] = new(int64)
	}
	return m[name]
}

type srcFile struct {
	hackpadfs.File
	s    *srcFS
	name string
}

func (s *srcFS) Open(name string) (hackpadfs.File, error) {
	atomic.AddInt64(s.counter(s.opens, name), 1)
	s.mu.Lock()
	failNow := s.failOpen != "" && s.failOpen == name
	if failNow {
		s.failOpen = ""
	}
	s.mu.Unlock()
	if failNow {
		return nil, &hackpadfs.PathError{Op: "open", Path: name, Err: errInjected}
	}
	f, err := s.fs.Open(name)
	if err != nil {
		return nil, err
	}
	if s.noSeek {
		return plainFile{&srcFile{f, s, name}}, nil
	}
	return &srcFile{f, s, name}, nil
}

func (f *srcFile) Read(p []byte) (int, error) {
	idx := atomic.AddInt64(f.s.counter(f.s.reads, f.name), 1) - 1
	if f.s.pause != nil {
		f.s.pause(f.name, idx)
	}
	if f.name == f.s.failName && idx == f.s.failRead {
		if f.s.onFail != nil {
			f.s.onFail(f.name)
		}
		return 0, errInjected
	}
	return f.File.Read(p)
}
func (f *srcFile) Seek(o int64, w int) (int64, error) { return hackpadfs.SeekFile(f.File, o, w) }
func (f *srcFile) ReadDir(n int) ([]hackpadfs.DirEntry, error) {
	if f.s.failDir != "" && f.s.failDir == f.name {
		return nil, &hackpadfs.PathError{Op: "readdir", Path: f.name, Err: errInjected}
	}
	return hackpadfs.ReadDirFile(f.File, n)
}
func (f *srcFile) ReadAt(p []byte, off int64) (int, error) {
	return hackpadfs.ReadAtFile(f.File, p, off)
}

func (s *srcFS) count(m map[string]*int64, name string) int64 {
	return atomic.LoadInt64(s.counter(m, name))
}

// ---- instrumented cache store: a full mem.FS or one exposing only OpenFile + Mkdir; can fail calls ----

type storeFS struct {
	fs      *mem.FS
	minimal bool
	calls   int64
	failAt  int64 // -1 never
	log     []string
	mu      sync.Mutex
	// removeHook, when set, runs before every Remove reaches the store (full store only)
	removeHook func(name string)
	// events: every call that reached the store (and injected source failures), in real-time order
	events []string
	// removeFails: Remove is refused (the partial copy cannot be removed)
	removeFails bool
	// openFailOnce: the next Open (for reading) fails with an error that is not "does not exist"
	openFailOnce bool
	openFailSkip int // (with openFailOnce) this many Opens go through first
	// writeHook, when set, runs before every Write of a cached copy reaches the store (name, index of the write)
	writeHook func(name string, idx int)
	// writeLog, when set, is told every Write that reaches the store (name, bytes)
	writeLog func(name string, p []byte)
}

func (s *storeFS) event(what string) {
	s.mu.Lock()
	s.events = append(s.events, what)
	s.mu.Unlock()
}

// concEvents renders the recorded calls on one name as the model's event list
func (s *storeFS) concEvents(name string) string {
	s.mu.Lock()
	defer s.mu.Unlock()
	var out []string
	for _, e := range s.events {
		f := strings.Fields(e)
		if len(f) != 2 || f[1] != name {
			continue
		}
		switch f[0] {
		case "openfile":
			out = append(out, "VCreate")
		case "write":
			out = append(out, "VWrite")
		case "close":
			out = append(out, "VClose")
		case "remove":
			out = append(out, "VRemove")
		case "removefail":
			out = append(out, "VRemoveFail")
		case "srcfail":
			out = append(out, "VSrcFail")
		}
	}
	return cList(out)
}

func (s *storeFS) tick(what string) error {
	s.mu.Lock()
	defer s.mu.Unlock()
	n := s.calls
	s.calls++
	s.log = append(s.log, what)
	if !strings.HasPrefix(what, "close ") { // Close records its own event, once per handle
		s.events = append(s.events, what)
	}
	if n == s.failAt {
		return &hackpadfs.PathError{Op: "injected", Path: what, Err: errInjected}
	}
	return nil
}

type storeFile struct {
	hackpadfs.File
	s    *storeFS
	name string
	w    bool
	// closedOnce: copyFile closes its handle explicitly and once more in a deferred call; only the first Close is a store call
	closedOnce bool
	nwrites    int
}

func (f *storeFile) Write(p []byte) (int, error) {
	if h := f.s.writeHook; h != nil {
		h(f.name, f.nwrites)
	}
	f.nwrites++
	if l := f.s.writeLog; l != nil {
		l(f.name, append([]byte(nil), p...))
	}
	if err := f.s.tick("write " + f.name); err != nil {
		// a failing write may have stored a part
		if len(p) > 1 {
			_, _ = hackpadfs.WriteFile(f.File, p[:len(p)/2])
		}
		return len(p) / 2, err
	}
	return hackpadfs.WriteFile(f.File, p)
}
func (f *storeFile) Close() error {
	if f.w {
		if !f.closedOnce {
			f.closedOnce = true
			f.s.event("close " + f.name)
		}
		if err := f.s.tick("close " + f.name); err != nil {
			_ = f.File.Close()
			return err
		}
	}
	return f.File.Close()
}
func (f *storeFile) Seek(o int64, w int) (int64, error) { return hackpadfs.SeekFile(f.File, o, w) }
func (f *storeFile) ReadDir(n int) ([]hackpadfs.DirEntry, error) {
	return hackpadfs.ReadDirFile(f.File, n)
}
func (f *storeFile) ReadAt(p []byte, off int64) (int, error) {
	return hackpadfs.ReadAtFile(f.File, p, off)
}

type storeFull struct{ *storeFS }
type storeMin struct{ *storeFS }

func (s *storeFS) Open(name string) (hackpadfs.File, error) {
	s.mu.Lock()
	failNow := s.openFailOnce
	if failNow && s.openFailSkip > 0 {
		s.openFailSkip--
		failNow = false
	} else {
		s.openFailOnce = false
	}
	s.mu.Unlock()
	if failNow {
		return nil, &hackpadfs.PathError{Op: "open", Path: name, Err: errInjected}
	}
	f, err := s.fs.Open(name)
	if err != nil {
		return nil, err
	}
	return &storeFile{File: f, s: s, name: name}, nil
}
func (s *storeFS) OpenFile(name string, flag int, perm hackpadfs.FileMode) (hackpadfs.File, error) {
	if err := s.tick("openfile " + name); err != nil {
		return nil, err
	}
	f, err := s.fs.OpenFile(name, flag, perm)
	if err != nil {
		return nil, err
	}
	return &storeFile{File: f, s: s, name: name, w: true}, nil
}
func (s *storeFS) Mkdir(name string, perm hackpadfs.FileMode) error {
	if err := s.tick("mkdir " + name); err != nil {
		return err
	}
	return s.fs.Mkdir(name, perm)
}
func (s storeFull) Remove(name string) error {
	if s.removeFails {
		s.event("removefail " + name)
		return &hackpadfs.PathError{Op: "remove", Path: name, Err: errInjected}
	}
	s.event("remove " + name)
	if s.removeHook != nil {
		s.removeHook(name)
	}
	return s.fs.Remove(name)
}
func (s storeFull) Stat(name string) (gofs.FileInfo, error) { return s.fs.Stat(name) }
func (s storeFull) MkdirAll(name string, perm hackpadfs.FileMode) error {
	if err := s.tick("mkdirall " + name); err != nil {
		return err
	}
	return s.fs.MkdirAll(name, perm)
}

type cacheStore interface {
	hackpadfs.OpenFileFS
	hackpadfs.MkdirFS
}

func newStore(minimal bool) (*storeFS, cacheStore) {
	s := &storeFS{fs: newMem().(*mem.FS), minimal: minimal, failAt: -1}
	if minimal {
		return s, storeMin{s}
	}
	return s, storeFull{s}
}

// ---- source trees ----

var cacheSizes = []int{0, 1, 511, 512, 513, 1024, 2048, 5000}

type srcEntry struct {
	path  string
	isDir bool
	data  []byte
	perm  uint32
}

func genTree(r *Rng) []srcEntry {
	var es []srcEntry
	dirs := []string{"."}
	n := r.Range(2, 7)
	used := map[string]bool{}
	for i := 0; i < n; i++ {
		d := dirs[r.Intn(len(dirs))]
		p := joinP(d, nsNames[r.Intn(len(nsNames))])
		if used[p] || depthOf(p) > 3 {
			continue
		}
		used[p] = true
		if r.Intn(3) == 0 {
			es = append(es, srcEntry{path: p, isDir: true, perm: 0o755})
			dirs = append(dirs, p)
		} else {
			sz := cacheSizes[r.Intn(len(cacheSizes))]
			data := make([]byte, sz)
			for k := range data {
				data[k] = byte(k*7 + len(p)*13 + i)
			}
			es = append(es, srcEntry{path: p, data: data, perm: perms[r.Intn(len(perms))]})
		}
	}
	return es
}

func buildTree(es []srcEntry) hackpadfs.FS {
	fs := newMem()
	for _, e := range es {
		if e.isDir {
			_ = hackpadfs.Mkdir(fs, e.path, gofs.FileMode(e.perm))
		} else {
			_ = hackpadfs.WriteFullFile(fs, e.path, e.data, gofs.FileMode(e.perm))
		}
	}
	return fs
}

type retainPolicy struct {
	name string
	fn   func(string, hackpadfs.FileInfo) bool
}

var retainPolicies = []retainPolicy{
	{"always", nil},
	{"never", func(string, hackpadfs.FileInfo) bool { return false }},
	{"small", func(_ string, info hackpadfs.FileInfo) bool { return info.Size() <= 512 }},
	{"byname", func(n string, _ hackpadfs.FileInfo) bool { return strings.HasSuffix(n, "a") }},
	// decided by the full name, not the base name: only files inside some directory
	{"nested", func(n string, _ hackpadfs.FileInfo) bool { return strings.Contains(n, "/") }},
	{"bydir", func(n string, _ hackpadfs.FileInfo) bool {
		return strings.HasPrefix(n, "a/") || strings.HasPrefix(n, "b/")
	}},
}

// access sequence operation on the cache FS (and on the source directly, as the reference)
type cOp struct {
	kind string // open stat read seek readdir close
	p    string
	h    int
	n    int
	off  int64
	wh   int
}

func (o cOp) String() string {
	switch o.kind {
	case "open", "stat":
		return fmt.Sprintf("%s %q", o.kind, o.p)
	case "read", "readdir":
		return fmt.Sprintf("%s h%d n=%d", o.kind, o.h, o.n)
	case "seek":
		return fmt.Sprintf("seek h%d %d whence=%d", o.h, o.off, o.wh)
	}
	return fmt.Sprintf("%s h%d", o.kind, o.h)
}

func applyC(fs hackpadfs.FS, hs *[]hackpadfs.File, o cOp) string {
	switch o.kind {
	case "open":
		f, err := fs.Open(o.p)
		if err != nil {
			*hs = append(*hs, nil) // keeps handle numbers equal to open numbers
			return "err " + classOf(err)
		}
		*hs = append(*hs, f)
		return "handle"
	case "stat":
		info, err := hackpadfs.Stat(fs, o.p)
		if err != nil {
			return "err " + classOf(err)
		}
		sz := info.Size()
		if info.IsDir() {
			sz = 0
		}
		return fmt.Sprintf("info %s dir=%v perm=%o size=%d", info.Name(), info.IsDir(), info.Mode()&0o777, sz)
	}
	if o.h >= len(*hs) || (*hs)[o.h] == nil {
		return "nohandle"
	}
	f := (*hs)[o.h]
	switch o.kind {
	case "read":
		buf := make([]byte, o.n)
		n, err := io.ReadFull(f, buf)
		if err == io.ErrUnexpectedEOF || err == io.EOF {
			err = nil // only the bytes matter; EOF placement is C02's
		}
		if err != nil {
			return "err " + classOf(err)
		}
		return fmt.Sprintf("bytes %x", buf[:n])
	case "seek":
		n, err := hackpadfs.SeekFile(f, o.off, o.wh)
		if err != nil {
			return "err " + classOf(err)
		}
		return fmt.Sprintf("off %d", n)
	case "readdir":
		es, err := hackpadfs.ReadDirFile(f, o.n)
		if err != nil && err != io.EOF {
			return "err " + classOf(err)
		}
		var names []string
		for _, e := range es {
			names = append(names, fmt.Sprintf("%s:%v", e.Name(), e.IsDir()))
		}
		if o.n > 0 {
			c10Paged[f] = true
			return fmt.Sprintf("page %d eof=%v", len(names), err == io.EOF) // page order is the source's
		}
		if c10Paged[f] {
			// "the rest" after some pages: which entries remain depends on the (unspecified) page order
			return fmt.Sprintf("rest %d", len(names))
		}
		sort.Strings(names)
		return "entries " + strings.Join(names, ",")
	case "hstat":
		info, err := f.Stat()
		if err != nil {
			return "err " + classOf(err)
		}
		sz := info.Size()
		if info.IsDir() {
			sz = 0
		}
		return fmt.Sprintf("info dir=%v perm=%o size=%d", info.IsDir(), info.Mode()&0o777, sz)
	case "close":
		if err := f.Close(); err != nil {
			return "err " + classOf(err)
		}
		return "ok"
	}
	return "?"
}

func genAccess(r *Rng, es []srcEntry) []cOp {
	var ops []cOp
	paths := []string{".", "nope", "a/nope"}
	for _, e := range es {
		paths = append(paths, e.path)
	}
	nh := 0
	var opened []string
	n := r.Range(6, 24)
	if r.Intn(5) == 0 {
		// a directory handle paged once with a small count and then asked for "everything" with a huge count
		d := "."
		for _, e := range es {
			if e.isDir && r.Intn(2) == 0 {
				d = e.path
			}
		}
		ops = append(ops, cOp{kind: "open", p: d}, cOp{kind: "readdir", h: 0, n: 1},
			cOp{kind: "readdir", h: 0, n: []int{math.MaxInt, math.MaxInt - 1, 1 << 62}[r.Intn(3)]})
		opened = append(opened, d)
		nh++
	}
	for len(ops) < n {
		switch r.Pick(6, 3, 8, 3, 3, 2, 2) {
		case 0:
			op := paths[r.Intn(len(paths))]
			if len(opened) > 0 && r.Intn(3) == 0 {
				op = opened[r.Intn(len(opened))] // again: a retained file is now served from the cache store
			}
			ops = append(ops, cOp{kind: "open", p: op})
			opened = append(opened, op)
			nh++
			if r.Intn(3) == 0 {
				ops = append(ops, cOp{kind: "hstat", h: nh - 1})
			}
		case 1:
			ops = append(ops, cOp{kind: "stat", p: paths[r.Intn(len(paths))]})
		case 2:
			if nh > 0 {
				ops = append(ops, cOp{kind: "read", h: r.Intn(nh), n: []int{0, 1, 7, 100, 511, 512, 513, 6000}[r.Intn(8)]})
			}
		case 3:
			if nh > 0 {
				ops = append(ops, cOp{kind: "seek", h: r.Intn(nh), off: int64(r.Range(0, 600)), wh: r.Intn(3)})
			}
		case 4:
			if nh > 0 {
				cnt := r.Range(-1, 3)
				if r.Intn(6) == 0 {
					cnt = []int{math.MaxInt, math.MaxInt - 1, 1 << 40}[r.Intn(3)] // a huge count, also after earlier pages
				}
				ops = append(ops, cOp{kind: "readdir", h: r.Intn(nh), n: cnt})
			}
		case 5:
			if nh > 0 {
				ops = append(ops, cOp{kind: "hstat", h: r.Intn(nh)})
			}
		default:
			if nh > 0 {
				ops = append(ops, cOp{kind: "close", h: r.Intn(nh)})
			}
		}
	}
	return ops
}

// handles on which a positive-count page has been read
var c10Paged = map[hackpadfs.File]bool{}

func runC10(r *Rng, n int, replay string) {
	defer runC10SrcDirFail(900000)
	defer runC10WhileFilling(920000)
	defer runC10DirSeq(r, n/4+20, 910000)
	for id := 0; id < n; id++ {
		es := genTree(r)
		pol := retainPolicies[r.Intn(len(retainPolicies))]
		minimal := r.Intn(2) == 0
		src := newSrcFS(buildTree(es))
		src.noSeek = id%4 == 3 // a source whose handles cannot seek: the cache must cope (re-open from its store, or hand out the fresh handle)
		ref := buildTree(es)
		_, store := newStore(minimal)
		cfs, err := cache.NewReadOnlyFS(src, store, cache.ReadOnlyOptions{RetainData: pol.fn})
		if err != nil {
			panic(err)
		}
		c := &Case{ID: id, Kind: fmt.Sprintf("retain=%s/minimal=%v%s", pol.name, minimal, map[bool]string{true: "/noseek", false: ""}[src.noSeek])}
		var tree []string
		for _, e := range es {
			if e.isDir {
				tree = append(tree, e.path+"/")
			} else {
				tree = append(tree, fmt.Sprintf("%s(%d bytes,%o)", e.path, len(e.data), e.perm))
			}
		}
		c.Text = append(c.Text, fmt.Sprintf("source %v retain=%s cache-store=%s", tree, pol.name, map[bool]string{true: "OpenFile+Mkdir only", false: "mem.FS"}[minimal]))
		c.Cells = []string{c.Kind}
		ops := genAccess(r, es)
		var hc, hr []hackpadfs.File
		openedOK := map[string]bool{}
		retained := func(p string) bool {
			if pol.fn == nil {
				return true
			}
			info, err := hackpadfs.Stat(ref, p)
			return err == nil && pol.fn(p, info)
		}
		isDirH := map[int]bool{}
		nh := 0
		for i, o := range ops {
			var a, b string
			if (o.kind == "read" || o.kind == "seek") && isDirH[o.h] {
				continue // byte reads of a directory handle: mem.FS's known deviation (C02), not the cache's business
			}
			if src.noSeek && o.kind == "seek" {
				continue // the source's own handles cannot seek: nothing to compare
			}
			readsBefore, opensBefore := int64(0), int64(0)
			if o.kind == "open" {
				readsBefore = src.count(src.reads, o.p)
				opensBefore = src.count(src.opens, o.p)
			}
			func() {
				defer func() {
					if e := recover(); e != nil {
						a = fmt.Sprint("panic: ", e)
					}
				}()
				a = applyC(cfs, &hc, o)
			}()
			b = applyC(ref, &hr, o)
			c.Text = append(c.Text, fmt.Sprintf("%s -> %s", o, trunc(a)))
			if a != b {
				c.fail(fmt.Sprintf("source %v retain=%s minimal=%v step %d (%s): cache answers %q, the source %q", tree, pol.name, minimal, i, o, trunc(a), trunc(b)), "transparent:"+o.kind)
				break
			}
			if o.kind == "open" && a == "handle" {
				info, _ := hackpadfs.Stat(ref, o.p)
				isDirH[nh] = info != nil && info.IsDir()
				if info != nil && !info.IsDir() && retained(o.p) {
					if openedOK[o.p] && src.count(src.reads, o.p) != readsBefore {
						c.fail(fmt.Sprintf("source %v step %d (%s): the source was read again (%d reads) for a retained file that had already been opened successfully", tree, i, o, src.count(src.reads, o.p)-readsBefore), "reread")
					}
					if openedOK[o.p] && src.count(src.opens, o.p) != opensBefore && c.Oracle == "" {
						c.fail(fmt.Sprintf("source %v step %d (%s): the source was opened again for a retained file (%d bytes) that had already been opened successfully: it is not served from the cache", tree, i, o, info.Size()), "reopen")
					}
					openedOK[o.p] = true
				}
			}
			if o.kind == "open" {
				nh++
			}
		}
		for _, f := range append(hc, hr...) {
			if f != nil {
				closeIf(f)
			}
		}
		emit(c)
		// model case: a sequence of opens (each read to the end) on a fresh cache over the same tree
		// (trees with files above 1100 bytes are left to the oracle: long byte literals are slow to check in-kernel)
		big := false
		for _, e := range es {
			big = big || len(e.data) > 1100
		}
		if !big {
			src2 := newSrcFS(buildTree(es))
			_, store2 := newStore(minimal)
			cfs2, _ := cache.NewReadOnlyFS(src2, store2, cache.ReadOnlyOptions{RetainData: pol.fn})
			names := []string{"nope"}
			var retainedNames []string
			for _, e := range es {
				names = append(names, e.path)
				if !e.isDir && retained(e.path) {
					retainedNames = append(retainedNames, cStr(e.path))
				}
			}
			var opsC, resC []string
			opened := map[string]bool{}
			for k := 0; k < 8; k++ {
				nm := names[r.Intn(len(names))]
				opened[nm] = true
				opsC = append(opsC, fmt.Sprintf("(%s, FNone, 0%%nat)", cStr(nm)))
				f, err := cfs2.Open(nm)
				if err != nil {
					resC = append(resC, "OErr")
					continue
				}
				if info, serr := f.Stat(); serr == nil && info.IsDir() {
					resC = append(resC, "DirHandle")
				} else {
					got, _ := readAllOf(f)
					resC = append(resC, "(Served "+cBytes(got)+")")
				}
				closeIf(f)
			}
			var opensC []string
			for nm := range opened {
				opensC = append(opensC, cPair(cStr(nm), cNat(int(src2.count(src2.opens, nm)))))
			}
			sort.Strings(opensC)
			mc := &Case{ID: id, Kind: "model/" + c.Kind, Trivial: false}
			mc.Text = []string{fmt.Sprintf("source %v retain=%s: 8 opens read to the end; results and source-open counts vs the model", tree, pol.name)}
			mc.Coq = fmt.Sprintf("(%s, %s, %s, %s, %s, %s)", srcCoq(es, ""), cList(retainedNames), cBool(!minimal), cList(opsC), cList(resC), cList(opensC))
			emit(mc)
		}
	}
}

func trunc(s string) string {
	if len(s) > 120 {
		return s[:120] + "..."
	}
	return s
}

// ---- C11: faults during the fill, and concurrent first opens ----

func readAllOf(f hackpadfs.File) ([]byte, error) {
	if f == nil {
		return nil, errors.New("Open returned a nil handle together with a nil error")
	}
	var buf bytes.Buffer
	_, err := io.Copy(&buf, f)
	return buf.Bytes(), err
}

// c11Hangs counts concurrent-open trials whose openers never all returned
var c11Hangs int

func runC11(r *Rng, n int, replay string) {
	defer runC11CrossNames(950000)
	id := 0
	for it := 0; id < n; it++ {
		size := cacheSizes[it%len(cacheSizes)]
		minimal := (it/len(cacheSizes))%2 == 1
		data := make([]byte, size)
		for k := range data {
			data[k] = byte(k*11 + 3)
		}
		name := []string{"f", "d/f", "d/e/f"}[it%3]
		mkSrc := func() *srcFS {
			fs := newMem()
			if d := parentOf(name); d != "." {
				_ = hackpadfs.MkdirAll(fs, d, 0o755)
			}
			_ = hackpadfs.WriteFullFile(fs, name, data, 0o640)
			return newSrcFS(fs)
		}
		// how many source reads / store calls does a clean fill make?
		s0 := mkSrc()
		st0, store0 := newStore(minimal)
		c0, _ := cache.NewReadOnlyFS(s0, store0, cache.ReadOnlyOptions{})
		if f, err := c0.Open(name); err == nil {
			closeIf(f)
		}
		nreads := int(s0.count(s0.reads, name))
		ncalls := int(st0.calls)
		type fault struct {
			kind string
			idx  int
		}
		var faults []fault
		for k := 0; k < nreads; k++ {
			faults = append(faults, fault{"source-read", k})
		}
		for k := 0; k < ncalls; k++ {
			faults = append(faults, fault{"store-call", k})
		}
		for _, ft := range faults {
			if id >= n {
				break
			}
			src := mkSrc()
			st, store := newStore(minimal)
			what := ""
			if ft.kind == "source-read" {
				src.failName, src.failRead = name, int64(ft.idx)
				what = fmt.Sprintf("source read %d fails", ft.idx)
			} else {
				st.failAt = int64(ft.idx)
				what = fmt.Sprintf("cache store call %d (%s) fails", ft.idx, st0.log[ft.idx])
			}
			cfs, _ := cache.NewReadOnlyFS(src, store, cache.ReadOnlyOptions{})
			c := &Case{ID: id, Kind: "fault/" + ft.kind}
			id++
			hdr := fmt.Sprintf("file %q of %d bytes, cache store %s, %s", name, size, map[bool]string{true: "minimal", false: "mem.FS"}[minimal], what)
			c.Text = []string{hdr}
			c.Cells = []string{fmt.Sprintf("fault/%s/size%d/min=%v", ft.kind, size, minimal)}
			var c11Results []string
			f, err := cfs.Open(name)
			if err == nil && f == nil {
				c.fail(hdr+": the open returned a nil handle and a nil error (the failed fill is not reported)", "fault:"+ft.kind+":nil-nil")
			}
			if err == nil {
				got, rerr := readAllOf(f)
				closeIf(f)
				c11Results = append(c11Results, "(Served "+cBytes(got)+")")
				if rerr != nil || !bytes.Equal(got, data) {
					c.fail(hdr+fmt.Sprintf(": the open succeeded but served %d bytes (err %v) instead of the %d source bytes", len(got), rerr, len(data)), "fault:"+ft.kind+":first-open-partial")
				}
				c.Text = append(c.Text, "first open: ok (failure was immaterial or absorbed)")
				if ft.kind == "store-call" {
					// create, every write and the (first) close of the copy are the copy: when one fails the open must say so
					if mf, _ := modelFault(ft.kind, ft.idx, st0.log, size); mf != "FNone" && mf != "" {
						c.fail(hdr+": the open reported success although the copy into the cache store failed", "fault:store-call:silent:"+strings.Fields(st0.log[ft.idx])[0])
					}
				}
			} else {
				c11Results = append(c11Results, "OErr")
				c.Text = append(c.Text, "first open: "+err.Error())
			}
			// fault-free re-opens: the complete bytes or an error, never a truncated or mixed file
			src.failRead, st.failAt = -1, -1
			for k := 0; k < 3; k++ {
				f, err := cfs.Open(name)
				if err != nil {
					c.Text = append(c.Text, fmt.Sprintf("re-open %d: %v", k, err))
					c11Results = append(c11Results, "OErr")
					continue
				}
				got, rerr := readAllOf(f)
				closeIf(f)
				c11Results = append(c11Results, "(Served "+cBytes(got)+")")
				c.Text = append(c.Text, fmt.Sprintf("re-open %d: %d bytes", k, len(got)))
				if rerr != nil || !bytes.Equal(got, data) {
					c.fail(hdr+fmt.Sprintf(": re-open %d served %d bytes (err %v) instead of the complete %d source bytes", k, len(got), rerr, len(data)), "fault:"+ft.kind+":partial-served")
					break
				}
			}
			// model case: the same opens with the same fault
			if mf, ok := modelFault(ft.kind, ft.idx, st0.log, size); ok && size <= 1100 {
				c.Coq = fmt.Sprintf("(%s, %s, %s, %s, %s, %s)", srcCoq([]srcEntry{{path: name, data: data}}, name), cList([]string{cStr(name)}), cBool(!minimal),
					cList(append([]string{fmt.Sprintf("(%s, %s, %s)", cStr(name), mf, cNat(partOf(ft.kind, ft.idx, st0.log, size)))}, repeatStr(fmt.Sprintf("(%s, FNone, 0%%nat)", cStr(name)), 3)...)),
					cList(c11Results), cList([]string{cPair(cStr(name), cNat(int(src.count(src.opens, name))))}))
			}
			emit(c)
			// the same fault again, then a re-open during which the SOURCE cannot be opened, then fault-free re-opens:
			// whatever the first failure left in the cache store must still never be served
			if err != nil && (ft.idx%3 == 0) {
				src2 := mkSrc()
				st2, store2 := newStore(minimal)
				if ft.kind == "source-read" {
					src2.failName, src2.failRead = name, int64(ft.idx)
				} else {
					st2.failAt = int64(ft.idx)
				}
				cfs2, _ := cache.NewReadOnlyFS(src2, store2, cache.ReadOnlyOptions{})
				c2 := &Case{ID: 100000 + id, Kind: "fault/" + ft.kind + "/reopen-source-down", Trivial: true}
				c2.Cells = []string{fmt.Sprintf("fault2/%s/min=%v", ft.kind, minimal)}
				c2.Text = []string{hdr + "; then a re-open while the source cannot be opened; then fault-free re-opens"}
				var res2 []string
				if f, e := cfs2.Open(name); e == nil {
					got, _ := readAllOf(f)
					closeIf(f)
					res2 = append(res2, "(Served "+cBytes(got)+")")
				} else {
					res2 = append(res2, "OErr")
				}
				src2.failRead, st2.failAt = -1, -1
				src2.mu.Lock()
				src2.failOpen = name
				src2.mu.Unlock()
				if f, e := cfs2.Open(name); e == nil {
					got, rerr := readAllOf(f)
					closeIf(f)
					res2 = append(res2, "(Served "+cBytes(got)+")")
					c2.Text = append(c2.Text, fmt.Sprintf("re-open with the source down: %d bytes", len(got)))
					if rerr != nil || !bytes.Equal(got, data) {
						c2.fail(c2.Text[0]+fmt.Sprintf(": the re-open with the source down served %d bytes (err %v) instead of the complete %d source bytes", len(got), rerr, len(data)), "fault2:"+ft.kind+":partial-served")
					}
				} else {
					res2 = append(res2, "OErr")
					c2.Text = append(c2.Text, "re-open with the source down: "+e.Error())
				}
				src2.mu.Lock()
				src2.failOpen = ""
				src2.mu.Unlock()
				for k := 0; k < 2 && c2.Oracle == ""; k++ {
					f, e := cfs2.Open(name)
					if e != nil {
						res2 = append(res2, "OErr")
						c2.Text = append(c2.Text, fmt.Sprintf("re-open %d: %v", k, e))
						continue
					}
					got, rerr := readAllOf(f)
					closeIf(f)
					res2 = append(res2, "(Served "+cBytes(got)+")")
					c2.Text = append(c2.Text, fmt.Sprintf("re-open %d: %d bytes", k, len(got)))
					if rerr != nil || !bytes.Equal(got, data) {
						c2.fail(c2.Text[0]+fmt.Sprintf(": re-open %d served %d bytes (err %v) instead of the complete %d source bytes", k, len(got), rerr, len(data)), "fault2:"+ft.kind+":partial-served")
					}
				}
				// model case: (fault, part), then FSrcOpen, then two clean opens
				if mf, ok := modelFault(ft.kind, ft.idx, st0.log, size); ok && size <= 1100 && len(res2) == 4 {
					c2.Trivial = false
					c2.Coq = fmt.Sprintf("(%s, %s, %s, %s, %s, %s)", srcCoq([]srcEntry{{path: name, data: data}}, name), cList([]string{cStr(name)}), cBool(!minimal),
						cList([]string{fmt.Sprintf("(%s, %s, %s)", cStr(name), mf, cNat(partOf(ft.kind, ft.idx, st0.log, size))),
							fmt.Sprintf("(%s, FSrcOpen, 0%%nat)", cStr(name)), fmt.Sprintf("(%s, FNone, 0%%nat)", cStr(name)), fmt.Sprintf("(%s, FNone, 0%%nat)", cStr(name))}),
						cList(res2), cList([]string{cPair(cStr(name), cNat(int(src2.count(src2.opens, name))))}))
				}
				emit(c2)
			}
		}
		// concurrent first opens of one name, the copy paused at every chunk boundary
		for trial := 0; trial < 2 && id < n && c11Hangs < 2; trial++ { // (two hung trials are enough to report: each costs 20 s)
			k := 2 + (it+trial)%3
			src := mkSrc()
			stc, store := newStore(minimal)
			var copying, maxCopies int64
			var seen sync.Map
			gate := make(chan struct{}, 64)
			src.pause = func(nm string, idx int64) {
				select {
				case <-gate:
				case <-time.After(2 * time.Millisecond):
				}
			}
			cfs, _ := cache.NewReadOnlyFS(&copyCounter{src, &copying, &maxCopies, &seen}, store, cache.ReadOnlyOptions{})
			c := &Case{ID: id, Kind: "concurrent"}
			id++
			hdr := fmt.Sprintf("%d concurrent first opens of %q (%d bytes), cache store %s", k, name, size, map[bool]string{true: "minimal", false: "mem.FS"}[minimal])
			c.Text = []string{hdr}
			c.Cells = []string{fmt.Sprintf("concurrent/k%d/size%d", k, size)}
			var wg sync.WaitGroup
			results := make([]string, k)
			for g := 0; g < k; g++ {
				wg.Add(1)
				go func(g int) {
					defer wg.Done()
					defer func() {
						if e := recover(); e != nil {
							results[g] = fmt.Sprint("panic: ", e)
						}
					}()
					f, err := cfs.Open(name)
					if err != nil {
						results[g] = "err"
						return
					}
					got, rerr := readAllOf(f)
					closeIf(f)
					if rerr != nil || !bytes.Equal(got, data) {
						results[g] = fmt.Sprintf("partial: %d of %d bytes (err %v)", len(got), len(data), rerr)
						return
					}
					results[g] = "complete"
				}(g)
			}
			go func() {
				for i := 0; i < 4096; i++ {
					gate <- struct{}{}
				}
			}()
			done := make(chan struct{})
			go func() { wg.Wait(); close(done) }()
			select {
			case <-done:
			case <-time.After(20 * time.Second):
				c.fail(hdr+": the opens did not all return", "concurrent:hang")
				c11Hangs++
			}
			for g, res := range results {
				if res != "complete" && res != "err" {
					c.fail(fmt.Sprintf("%s: opener %d got %s", hdr, g, res), "concurrent:partial")
				}
			}
			if atomic.LoadInt64(&maxCopies) > 1 {
				c.fail(fmt.Sprintf("%s: %d copies of the file were in progress at the same time", hdr, maxCopies), "concurrent:copies")
			}
			c.Text = append(c.Text, fmt.Sprintf("results %v, max simultaneous copies %d", results, maxCopies))
			if size <= 2048 && c.Oracle == "" {
				// the model must accept the calls the store saw, and produce this many complete results and errors
				nc, ne := 0, 0
				for _, res := range results {
					if res == "complete" {
						nc++
					} else {
						ne++
					}
				}
				c.Coq = fmt.Sprintf("(%s, %s, %s, %s, %s)", cBytes(data), cNat(k), stc.concEvents(name), cNat(nc), cNat(ne))
				c.CType, c.Check = "C11conc_case", "C11conc_check"
			}
			emit(c)
		}
		// the cache store cannot open the cached copy (once): the open reports an error or serves the complete bytes --
		// it never hands out a nil handle with a nil error
		if size > 0 && id < n {
			src := mkSrc()
			st, store := newStore(minimal)
			cfs, _ := cache.NewReadOnlyFS(src, store, cache.ReadOnlyOptions{})
			c := &Case{ID: id, Kind: "store-open-fails", Trivial: true}
			id++
			c.Cells = []string{"store-open-fails"}
			hdr := fmt.Sprintf("file %q of %d bytes is cached; then the cache store's Open fails once", name, size)
			c.Text = []string{hdr}
			if f, err := cfs.Open(name); err == nil {
				_, _ = readAllOf(f)
				closeIf(f)
			}
			st.mu.Lock()
			st.openFailOnce = true
			st.mu.Unlock()
			func() {
				defer func() {
					if e := recover(); e != nil {
						c.fail(fmt.Sprintf("%s: panicked: %v", hdr, e), "store-open-fails:panic")
					}
				}()
				f, err := cfs.Open(name)
				switch {
				case err == nil && f == nil:
					c.fail(hdr+": Open returned a nil handle and a nil error", "store-open-fails:nil-nil")
				case err == nil:
					got, rerr := readAllOf(f)
					closeIf(f)
					if rerr != nil || !bytes.Equal(got, data) {
						c.fail(fmt.Sprintf("%s: the open succeeded with %d of %d bytes", hdr, len(got), len(data)), "store-open-fails:partial")
					}
				}
			}()
			emit(c)
		}
		// the same while the fill hands over: a source whose handles cannot seek makes the cache re-open the fresh copy
		// from its store, and THAT open fails
		if size > 0 && id < n {
			src := mkSrc()
			src.noSeek = true
			st, store := newStore(minimal)
			cfs, _ := cache.NewReadOnlyFS(src, store, cache.ReadOnlyOptions{})
			c := &Case{ID: id, Kind: "store-reopen-fails", Trivial: true}
			id++
			c.Cells = []string{"store-reopen-fails"}
			hdr := fmt.Sprintf("file %q of %d bytes, source handles cannot seek; the cache store's second Open (of the fresh copy) fails", name, size)
			c.Text = []string{hdr}
			st.mu.Lock()
			st.openFailOnce, st.openFailSkip = true, 1
			st.mu.Unlock()
			for round := 0; round < 2; round++ {
				func() {
					defer func() {
						if e := recover(); e != nil {
							c.fail(fmt.Sprintf("%s: open %d panicked: %v", hdr, round+1, e), "store-reopen-fails:panic")
						}
					}()
					f, err := cfs.Open(name)
					switch {
					case err == nil && f == nil:
						c.fail(fmt.Sprintf("%s: open %d returned a nil handle and a nil error", hdr, round+1), "store-reopen-fails:nil-nil")
					case err == nil:
						got, rerr := readAllOf(f)
						closeIf(f)
						if rerr != nil || !bytes.Equal(got, data) {
							c.fail(fmt.Sprintf("%s: open %d succeeded with %d of %d bytes", hdr, round+1, len(got), len(data)), "store-reopen-fails:partial")
						}
					}
				}()
			}
			emit(c)
		}
		// a failing fill while a second opener is already waiting for the same name: the clean-up of the partial copy
		// (held up inside the store's Remove until the second opener is done, or 60 ms) must finish before the second
		// opener is let in
		for variant := 0; variant < 2 && !minimal && size > 0 && id < n; variant++ {
			src := mkSrc()
			st, store := newStore(false)
			st.removeFails = variant == 1 // the partial copy stays in the store and the name is marked instead
			failIdx := int64(0)
			if size > 512 {
				failIdx = 1
			}
			src.failName, src.failRead = name, failIdx
			src.onFail = func(nm string) { st.event("srcfail " + nm) }
			aInCopy, bWaiting, bDone := make(chan struct{}), make(chan struct{}), make(chan struct{})
			var once sync.Once
			src.pause = func(nm string, idx int64) {
				if nm == name && idx == failIdx {
					once.Do(func() {
						close(aInCopy)
						select {
						case <-bWaiting:
						case <-time.After(2 * time.Second):
						}
					})
				}
			}
			st.removeHook = func(string) {
				select {
				case <-bDone:
				case <-time.After(60 * time.Millisecond):
				}
			}
			cfs, _ := cache.NewReadOnlyFS(src, store, cache.ReadOnlyOptions{})
			c := &Case{ID: id, Kind: "concurrent-fault"}
			id++
			hdr := fmt.Sprintf("first open of %q (%d bytes) fails at source read %d while a second open of it waits; the store's Remove %s", name, size, failIdx,
				map[bool]string{false: "is slow", true: "fails"}[st.removeFails])
			c.Text = []string{hdr}
			c.Cells = []string{fmt.Sprintf("concurrent-fault/size%d/removefails=%v", size, st.removeFails)}
			open1 := func() string {
				defer func() { _ = recover() }()
				f, err := cfs.Open(name)
				if err != nil {
					return "err"
				}
				got, rerr := readAllOf(f)
				closeIf(f)
				if rerr != nil || !bytes.Equal(got, data) {
					return fmt.Sprintf("partial: %d of %d bytes (err %v)", len(got), len(data), rerr)
				}
				return "complete"
			}
			var resA, resB string
			aDone := make(chan struct{})
			go func() { resA = open1(); close(aDone) }()
			select {
			case <-aInCopy:
			case <-time.After(2 * time.Second):
			}
			go func() { resB = open1(); close(bDone) }()
			time.Sleep(5 * time.Millisecond)
			close(bWaiting)
			hung := false
			for _, ch := range []chan struct{}{aDone, bDone} {
				select {
				case <-ch:
				case <-time.After(10 * time.Second):
					hung = true
				}
			}
			if hung {
				c.fail(hdr+": the opens did not both return", "concurrent-fault:hang")
			} else {
				c.Text = append(c.Text, fmt.Sprintf("first opener: %s, second opener: %s", resA, resB))
				for g, res := range []string{resA, resB} {
					if res != "complete" && res != "err" {
						c.fail(fmt.Sprintf("%s: opener %d got %s", hdr, g, res), "concurrent-fault:partial")
					}
				}
				// and afterwards, with nothing failing: the complete bytes or an error
				resC := open1()
				if resC != "complete" && resC != "err" {
					c.fail(fmt.Sprintf("%s: a later open got %s", hdr, resC), "concurrent-fault:partial-later")
				}
				if size <= 2048 && c.Oracle == "" {
					nc, ne := 0, 0
					for _, res := range []string{resA, resB, resC} {
						if res == "complete" {
							nc++
						} else {
							ne++
						}
					}
					c.Coq = fmt.Sprintf("(%s, %s, %s, %s, %s)", cBytes(data), cNat(3), st.concEvents(name), cNat(nc), cNat(ne))
					c.CType, c.Check = "C11conc_case", "C11conc_check"
				}
			}
			emit(c)
		}
	}
	_ = errors.New
}

// copyCounter counts, per name, how many source handles are being read concurrently by fills.
type copyCounter struct {
	*srcFS
	copying   *int64
	maxCopies *int64
	seen      *sync.Map
}

type countedFile struct {
	hackpadfs.File
	c      *copyCounter
	active bool
}

func (c *copyCounter) Open(name string) (hackpadfs.File, error) {
	f, err := c.srcFS.Open(name)
	if err != nil {
		return nil, err
	}
	return &countedFile{File: f, c: c}, nil
}

func (f *countedFile) Read(p []byte) (int, error) {
	if !f.active && len(p) == 512 { // the fill's 512-byte copy buffer
		f.active = true
		n := atomic.AddInt64(f.c.copying, 1)
		for {
			m := atomic.LoadInt64(f.c.maxCopies)
			if n <= m || atomic.CompareAndSwapInt64(f.c.maxCopies, m, n) {
				break
			}
		}
	}
	n, err := f.File.Read(p)
	if err != nil && f.active {
		f.active = false
		atomic.AddInt64(f.c.copying, -1)
	}
	return n, err
}
func (f *countedFile) Seek(o int64, w int) (int64, error) { return hackpadfs.SeekFile(f.File, o, w) }
func (f *countedFile) Close() error {
	if f.active {
		f.active = false
		atomic.AddInt64(f.c.copying, -1)
	}
	return f.File.Close()
}

func repeatStr(s string, n int) []string {
	out := make([]string, n)
	for i := range out {
		out[i] = s
	}
	return out
}

func srcCoq(es []srcEntry, only string) string {
	var items []string
	seen := map[string]bool{}
	for _, e := range es {
		if e.isDir {
			items = append(items, cPair(cStr(e.path), "SDir"))
		} else {
			items = append(items, cPair(cStr(e.path), "(SFile "+cBytes(e.data)+")"))
		}
		seen[e.path] = true
	}
	// ancestors are directories of the source
	for _, e := range es {
		for d := parentOf(e.path); d != "."; d = parentOf(d) {
			if !seen[d] {
				seen[d] = true
				items = append(items, cPair(cStr(d), "SDir"))
			}
		}
	}
	items = append(items, cPair(cStr("."), "SDir"))
	return cList(items)
}

// modelFault translates a harness fault into the model's fault constructor.
func modelFault(kind string, idx int, log []string, size int) (string, bool) {
	if kind == "source-read" {
		return fmt.Sprintf("(FSrcRead %s)", cNat(idx)), true
	}
	what := strings.Fields(log[idx])[0]
	switch what {
	case "mkdir", "mkdirall":
		return "FMkdir", true
	case "openfile":
		return "FCreate", true
	case "close":
		for _, l := range log[:idx] {
			if strings.HasPrefix(l, "close ") {
				return "FNone", true // the deferred second Close: its result is ignored
			}
		}
		return "FClose", true
	case "write":
		k := 0
		for _, l := range log[:idx] {
			if strings.HasPrefix(l, "write ") {
				k++
			}
		}
		return fmt.Sprintf("(FWrite %s)", cNat(k)), true
	}
	return "", false
}

// partOf: how many bytes of the failing chunk the harness store keeps (half of the chunk).
func partOf(kind string, idx int, log []string, size int) int {
	if kind != "store-call" || !strings.HasPrefix(log[idx], "write ") {
		return 0
	}
	k := 0
	for _, l := range log[:idx] {
		if strings.HasPrefix(l, "write ") {
			k++
		}
	}
	chunk := size - k*512
	if chunk > 512 {
		chunk = 512
	}
	return chunk / 2
}

// runC10SrcDirFail: "each call returns the same ... as the same call on the source" when the source's call FAILS:
// a directory handle of the cache lists the source at every ReadDir; while the source cannot list that directory the
// cache's ReadDir (any n, before or after a successful page) must fail too -- not report an empty directory or the end.
func runC10SrcDirFail(idBase int) {
	id := idBase
	es := []srcEntry{{path: "d", isDir: true}, {path: "d/a", data: []byte("a"), perm: 0o644}, {path: "d/b", data: []byte("bb"), perm: 0o644}, {path: "d/c", isDir: true}}
	for _, minimal := range []bool{false, true} {
		for _, n := range []int{-1, 0, 1, 2, 5} {
			for _, pagedFirst := range []bool{false, true} {
				src := newSrcFS(buildTree(es))
				_, store := newStore(minimal)
				cfs, err := cache.NewReadOnlyFS(src, store, cache.ReadOnlyOptions{})
				if err != nil {
					panic(err)
				}
				c := &Case{ID: id, Kind: "source-listing-fails", Trivial: true}
				id++
				c.Cells = []string{fmt.Sprintf("source-listing-fails/n=%d/paged=%v", n, pagedFirst)}
				h, err := cfs.Open("d")
				if err != nil {
					panic(err)
				}
				if pagedFirst {
					if _, err := hackpadfs.ReadDirFile(h, 1); err != nil {
						panic(err)
					}
				}
				src.failDir = "d"
				ents, rerr := hackpadfs.ReadDirFile(h, n)
				c.Text = []string{fmt.Sprintf("source d/{a,b,c/}; cache handle of d (one entry read before: %v); the source can no longer list d; cache ReadDir(%d) -> %d entries, %v", pagedFirst, n, len(ents), rerr)}
				if rerr == nil || rerr == io.EOF {
					c.fail(c.Text[0]+"   (the source's ReadDir fails, the cache's does not)", fmt.Sprintf("source-listing-fails:n=%d:%v", n, rerr))
				}
				src.failDir = ""
				// once the source lists again, so does the cache (and from where the handle was)
				ents2, rerr2 := hackpadfs.ReadDirFile(h, -1)
				want := 3
				if pagedFirst {
					want = 2
				}
				if rerr2 != nil || len(ents2) != want {
					c.fail(fmt.Sprintf("%s; after the source recovered ReadDir(-1) -> %d entries, %v (want the %d that remain)", c.Text[0], len(ents2), rerr2, want), "source-listing-fails:after")
				}
				_ = h.Close()
				emit(c)
			}
		}
	}
}

// runC10DirSeq: random call sequences on one cache directory handle, the source unable to list the directory at some
// of the calls; what each call returned is replayed through the model of cache/dir.go (Cache/CacheDir.v, C10dir_check)
// and judged directly: a failing source means a failing call, and the pages delivered are consecutive pieces of the listing.
func runC10DirSeq(r *Rng, n, idBase int) {
	id := idBase
	for k := 0; k < n; k++ {
		nent := r.Range(0, 6)
		es := []srcEntry{{path: "d", isDir: true}}
		var names []string
		for i := 0; i < nent; i++ {
			nm := string(rune('a' + i))
			names = append(names, nm)
			if r.Intn(3) == 0 {
				es = append(es, srcEntry{path: "d/" + nm, isDir: true})
			} else {
				es = append(es, srcEntry{path: "d/" + nm, data: []byte(nm), perm: 0o644})
			}
		}
		minimal := r.Intn(2) == 0
		src := newSrcFS(buildTree(es))
		_, store := newStore(minimal)
		cfs, err := cache.NewReadOnlyFS(src, store, cache.ReadOnlyOptions{})
		if err != nil {
			panic(err)
		}
		h, err := cfs.Open("d")
		if err != nil {
			panic(err)
		}
		c := &Case{ID: id, Kind: "dir-sequence"}
		id++
		c.Cells = []string{fmt.Sprintf("dir-sequence/entries=%d", nent)}
		c.Text = []string{fmt.Sprintf("source d/ with entries %v; one cache handle of d", names)}
		ncalls := r.Range(1, 7)
		var callsC, obsC []string
		var delivered []string
		for j := 0; j < ncalls; j++ {
			cnt := []int{-1, 0, 1, 1, 2, 3, 100}[r.Intn(7)]
			avail := r.Intn(4) != 0
			if avail {
				src.failDir = ""
			} else {
				src.failDir = "d"
			}
			ents, rerr := hackpadfs.ReadDirFile(h, cnt)
			var got []string
			for _, e := range ents {
				got = append(got, e.Name())
			}
			callsC = append(callsC, cPair(cBool(avail), cZ(int64(cnt))))
			var o string
			switch {
			case rerr == nil:
				items := make([]string, len(got))
				for i, g := range got {
					items[i] = cStr(g)
				}
				o = "DEntries " + cList(items)
				delivered = append(delivered, got...)
			case rerr == io.EOF:
				o = "DEOF"
			default:
				o = "DErr"
			}
			obsC = append(obsC, o)
			c.Text = append(c.Text, fmt.Sprintf("source lists d: %v; ReadDir(%d) -> %v, %v", avail, cnt, got, rerr))
			if !avail && (rerr == nil || rerr == io.EOF) {
				c.fail(fmt.Sprintf("call %d: the source cannot list d but the cache's ReadDir(%d) returned %v, %v", j+1, cnt, got, rerr), "dir-sequence:source-failure-hidden")
			}
			if avail && rerr != nil && rerr != io.EOF {
				c.fail(fmt.Sprintf("call %d: the source lists d but the cache's ReadDir(%d) failed: %v", j+1, cnt, rerr), "dir-sequence:spurious-error")
			}
		}
		// the pages are consecutive pieces of the source's listing
		for i, g := range delivered {
			if i >= len(names) || names[i] != g {
				c.fail(fmt.Sprintf("the pages delivered %v, the source's listing is %v", delivered, names), "dir-sequence:pages")
				break
			}
		}
		src.failDir = ""
		_ = h.Close()
		items := make([]string, len(names))
		for i, g := range names {
			items[i] = cStr(g)
		}
		c.Coq = "(" + cList(items) + ", " + cList(callsC) + ", " + cList(obsC) + ")"
		c.CType, c.Check = "C10dir_case", "C10dir_check"
		emit(c)
	}
}

// runC11CrossNames: fills of two DIFFERENT files at overlapping times (the per-name lock lets them overlap): the copy of
// "a" is held inside its k-th write to the cache store while "b" is opened and read completely; afterwards every open
// of either name -- the ones in flight and later ones served from the cache -- yields that file's complete source bytes
// ("never a truncated or mixed file").
func runC11CrossNames(idBase int) {
	id := idBase
	mk := func(seed byte, n int) []byte {
		d := make([]byte, n)
		for i := range d {
			d[i] = seed + byte(i%97)
		}
		return d
	}
	for _, minimal := range []bool{false, true} {
		for _, sizes := range [][2]int{{1300, 1300}, {1300, 700}, {600, 2000}, {513, 512}} {
			for k := 0; k < 3; k++ {
				if k*512 >= sizes[0] {
					continue
				}
				dataA, dataB := mk(1, sizes[0]), mk(101, sizes[1])
				fs := newMem()
				_ = hackpadfs.WriteFullFile(fs, "a", dataA, 0o644)
				_ = hackpadfs.WriteFullFile(fs, "b", dataB, 0o644)
				src := newSrcFS(fs)
				st, store := newStore(minimal)
				cfs, _ := cache.NewReadOnlyFS(src, store, cache.ReadOnlyOptions{})
				c := &Case{ID: id, Kind: "cross-names", Trivial: true}
				id++
				c.Cells = []string{fmt.Sprintf("cross-names/minimal=%v", minimal)}
				hdr := fmt.Sprintf("source a (%d bytes), b (%d bytes, other contents); the fill of a is held in its write %d to the cache store while b is opened and read", sizes[0], sizes[1], k)
				c.Text = []string{hdr}
				held := make(chan struct{})
				resume := make(chan struct{})
				var once sync.Once
				var evMu sync.Mutex
				var events []string
				st.writeLog = func(name string, p []byte) {
					evMu.Lock()
					events = append(events, cPair(cNat(map[string]int{"a": 0, "b": 1}[name]), cBytes(p)))
					evMu.Unlock()
				}
				st.writeHook = func(name string, idx int) {
					if name == "a" && idx == k {
						once.Do(func() {
							close(held)
							select {
							case <-resume:
							case <-time.After(2 * time.Second):
							}
						})
					}
				}
				check := func(who, name string, want []byte) {
					f, err := cfs.Open(name)
					if err != nil {
						return // an error is allowed; a wrong file is not
					}
					got, rerr := readAllOf(f)
					closeIf(f)
					if rerr == nil && !bytes.Equal(got, want) {
						foreign := 0
						for i := range got {
							if i >= len(want) || got[i] != want[i] {
								foreign++
							}
						}
						c.fail(fmt.Sprintf("%s: %s of %q yields %d bytes of which %d differ from the source's %d bytes", hdr, who, name, len(got), foreign, len(want)), "cross-names:mixed:"+name)
					}
				}
				doneA := make(chan struct{})
				go func() {
					defer close(doneA)
					defer func() { _ = recover() }()
					check("the open whose fill was held", "a", dataA)
				}()
				select {
				case <-held:
					doneB := make(chan struct{})
					go func() {
						defer close(doneB)
						defer func() { _ = recover() }()
						check("the open made meanwhile", "b", dataB)
					}()
					select {
					case <-doneB:
					case <-time.After(300 * time.Millisecond): // (an implementation that serialises all fills: fine)
					}
					close(resume)
					<-doneB
				case <-doneA: // the fill of a never made that write
					close(resume)
				case <-time.After(3 * time.Second):
					close(resume)
				}
				select {
				case <-doneA:
				case <-time.After(5 * time.Second):
					c.fail(hdr+": the held open never returned", "cross-names:hang")
				}
				st.writeHook = nil
				for round := 0; round < 2; round++ {
					check(fmt.Sprintf("re-open %d", round+1), "a", dataA)
					check(fmt.Sprintf("re-open %d", round+1), "b", dataB)
				}
				// the Writes the cache store saw, in real-time order, replayed through the model of interleaved fills
				// (Cache/CopyBuf.v): each continues its file with its own source's next bytes
				evMu.Lock()
				c.Coq = cPair(cList([]string{cPair(cNat(0), cBytes(dataA)), cPair(cNat(1), cBytes(dataB))}), cList(events))
				evMu.Unlock()
				c.CType, c.Check = "C11copy_case", "C11copy_check"
				c.Trivial = false
				emit(c)
			}
		}
	}
}

// runC10WhileFilling: transparency does not depend on who else is calling: while one Open is in the middle of copying a
// retained file into the cache store (held inside its k-th Write there), a second Open of the same name, and a Stat, are
// made from another goroutine.  Each call returns what the source holds (or an error) -- never fewer bytes.
func runC10WhileFilling(idBase int) {
	id := idBase
	data := make([]byte, 1700)
	for i := range data {
		data[i] = byte(i*7 + 1)
	}
	for _, minimal := range []bool{false, true} {
		for k := 0; k < 3; k++ {
			fs := newMem()
			_ = hackpadfs.WriteFullFile(fs, "f", data, 0o644)
			src := newSrcFS(fs)
			st, store := newStore(minimal)
			cfs, _ := cache.NewReadOnlyFS(src, store, cache.ReadOnlyOptions{})
			c := &Case{ID: id, Kind: "while-filling", Trivial: true}
			id++
			c.Cells = []string{fmt.Sprintf("while-filling/minimal=%v", minimal)}
			hdr := fmt.Sprintf("source f (%d bytes); one Open is held in write %d of its copy into the cache store; meanwhile a second Open reads f and Stat is called", len(data), k)
			c.Text = []string{hdr}
			held := make(chan struct{})
			resume := make(chan struct{})
			var once sync.Once
			st.writeHook = func(name string, idx int) {
				if name == "f" && idx == k {
					once.Do(func() {
						close(held)
						select {
						case <-resume:
						case <-time.After(2 * time.Second):
						}
					})
				}
			}
			openRead := func(who string) {
				defer func() { _ = recover() }()
				f, err := cfs.Open("f")
				if err != nil {
					return
				}
				got, rerr := readAllOf(f)
				closeIf(f)
				if rerr == nil && !bytes.Equal(got, data) {
					c.fail(fmt.Sprintf("%s: %s yields %d of the source's %d bytes", hdr, who, len(got), len(data)), "while-filling:partial")
				}
			}
			done1 := make(chan struct{})
			go func() { defer close(done1); openRead("the open that fills the cache") }()
			select {
			case <-held:
				done2 := make(chan struct{})
				go func() {
					defer close(done2)
					if info, err := hackpadfs.Stat(cfs, "f"); err == nil && info.Size() != int64(len(data)) {
						c.fail(fmt.Sprintf("%s: Stat reports %d bytes", hdr, info.Size()), "while-filling:stat")
					}
					openRead("the second open")
				}()
				select {
				case <-done2:
				case <-time.After(300 * time.Millisecond): // (it waits for the fill: fine)
				}
				close(resume)
				select {
				case <-done2:
				case <-time.After(5 * time.Second):
					c.fail(hdr+": the second open never returned", "while-filling:hang")
				}
			case <-done1:
				close(resume)
			case <-time.After(3 * time.Second):
				close(resume)
			}
			select {
			case <-done1:
			case <-time.After(5 * time.Second):
				c.fail(hdr+": the filling open never returned", "while-filling:hang")
			}
			st.writeHook = nil
			openRead("a later open")
			emit(c)
		}
	}
}
