package main

import (
	"bytes"
	"context"
	"fmt"
	"io"
	gofs "io/fs"
	"math"
	"sort"
	"strings"

	"github.com/hack-pad/hackpadfs"
	"github.com/hack-pad/hackpadfs/cache"
	"github.com/hack-pad/hackpadfs/mem"
	"github.com/hack-pad/hackpadfs/mount"
	hptar "github.com/hack-pad/hackpadfs/tar"
)

func init() { commands["C16"] = runC16 }

type child struct {
	name    string
	isDir   bool
	special uint32 // setuid/setgid/sticky (io/fs encoding) given to the child by Chmod after it was created
}

func genChildren(r *Rng, k int) []child {
	seen := map[string]bool{}
	var out []child
	for len(out) < k {
		n := fmt.Sprintf("%c%d", 'a'+byte(r.Intn(6)), r.Intn(1000))
		if r.Intn(4) == 0 {
			n = "z" + n
		}
		switch r.Intn(14) { // names a listing must not trip over: leading dots, odd bytes, other sort positions
		case 0:
			n = "." + n
		case 1:
			n = ".." + n
		case 2:
			n = n + "."
		case 3:
			n = "é" + n
		case 4:
			n = "A" + n
		case 5:
			n = "-" + n + " x"
		}
		if seen[n] {
			continue
		}
		seen[n] = true
		sp := uint32(0)
		if r.Intn(6) == 0 {
			sp = []uint32{1 << 20, 1 << 22, 1 << 23}[r.Intn(3)]
		}
		out = append(out, child{n, r.Intn(3) == 0, sp})
	}
	return out
}

func populate(fs hackpadfs.FS, dir string, cs []child) {
	if dir != "." {
		if err := hackpadfs.MkdirAll(fs, dir, 0o755); err != nil {
			panic(err)
		}
		// a sibling the listed directory's name would MATCH if it were read as a glob pattern
		if look := strings.NewReplacer("[1]", "1", "?", "X", "*", "ta", "\\", "").Replace(dir); look != dir {
			if err := hackpadfs.MkdirAll(fs, look+"/decoydir", 0o755); err != nil {
				panic(err)
			}
			if err := hackpadfs.WriteFullFile(fs, look+"/decoy", []byte{1}, 0o644); err != nil {
				panic(err)
			}
		}
		// decoys: siblings whose names extend the listed directory's name; nothing of theirs belongs in its listing
		for _, suffix := range []string{"x", ".x", "-"} {
			if err := hackpadfs.MkdirAll(fs, dir+suffix+"/decoydir", 0o755); err != nil {
				panic(err)
			}
			if err := hackpadfs.WriteFullFile(fs, dir+suffix+"/decoy", []byte{1}, 0o644); err != nil {
				panic(err)
			}
		}
	}
	for _, c := range cs {
		p := joinP(dir, c.name)
		var err error
		if c.isDir {
			err = hackpadfs.Mkdir(fs, p, 0o750)
		} else {
			err = hackpadfs.WriteFullFile(fs, p, []byte(c.name), 0o640)
		}
		if err != nil {
			panic(err)
		}
		if c.special != 0 {
			perm := uint32(0o640)
			if c.isDir {
				perm = 0o750
			}
			// the kind of a listed entry must still be the kind Stat reports (best effort: layers that cannot chmod keep the plain mode)
			_ = hackpadfs.Chmod(fs, p, hackpadfs.FileMode(perm|c.special))
		}
	}
}

type c16Layer struct {
	id    string
	model bool
	build func(dir string, cs []child) (hackpadfs.FS, func())
}

// c16SetupErr is set by a layer's build function when the composition cannot be set up
var c16SetupErr string

func c16Layers() []c16Layer {
	return []c16Layer{
		{"mem", true, func(dir string, cs []child) (hackpadfs.FS, func()) {
			fs := newMem()
			populate(fs, dir, cs)
			return fs, func() {}
		}},
		{"kvplain", true, func(dir string, cs []child) (hackpadfs.FS, func()) {
			fs, _ := newKVPlain()
			populate(fs, dir, cs)
			return fs, func() {}
		}},
		{"mount", false, func(dir string, cs []child) (hackpadfs.FS, func()) {
			root := newMem()
			populate(root, dir, cs)
			m, _ := mount.NewFS(root)
			// the first directory child becomes a mount point
			for _, c := range cs {
				if c.isDir {
					if err := m.AddMount(joinP(dir, c.name), newMem()); err != nil {
						panic(err)
					}
					break
				}
			}
			return m, func() {}
		}},
		{"nested", false, func(dir string, cs []child) (hackpadfs.FS, func()) {
			// the listed directory is itself a mount point and its first directory child is a mount point inside that mounted FS
			root, inner := newMem(), newMem()
			m, _ := mount.NewFS(root)
			if dir == "." {
				populate(root, dir, cs)
			} else {
				_ = hackpadfs.MkdirAll(root, dir, 0o755)
				populate(inner, ".", cs)
				if err := m.AddMount(dir, inner); err != nil {
					c16SetupErr = fmt.Sprintf("AddMount(%q) failed although the root file system has that directory: %v", dir, err)
				}
			}
			for _, c := range cs {
				if c.isDir {
					if err := m.AddMount(joinP(dir, c.name), newMem()); err != nil && c16SetupErr == "" {
						c16SetupErr = fmt.Sprintf("AddMount(%q) failed although the file system mounted at %q has that directory: %v", joinP(dir, c.name), dir, err)
					}
					break
				}
			}
			return m, func() {}
		}},
		{"mounted", false, func(dir string, cs []child) (hackpadfs.FS, func()) {
			// the listed directory lives inside a mounted FS
			root, inner := newMem(), newMem()
			_ = hackpadfs.Mkdir(root, "m", 0o755)
			populate(inner, dir, cs)
			m, _ := mount.NewFS(root)
			if err := m.AddMount("m", inner); err != nil {
				panic(err)
			}
			sub, err := hackpadfs.Sub(m, "m")
			if err != nil {
				panic(err)
			}
			return sub, func() {}
		}},
		{"sub", false, func(dir string, cs []child) (hackpadfs.FS, func()) {
			base := newMem()
			_ = hackpadfs.Mkdir(base, "base", 0o755)
			sub, err := hackpadfs.Sub(base, "base")
			if err != nil {
				panic(err)
			}
			populate(sub, dir, cs)
			return sub, func() {}
		}},
		{"cache", false, func(dir string, cs []child) (hackpadfs.FS, func()) {
			src, store := newMem(), newMem()
			populate(src, dir, cs)
			c, err := cache.NewReadOnlyFS(src, store.(*mem.FS), cache.ReadOnlyOptions{})
			if err != nil {
				panic(err)
			}
			return c, func() {}
		}},
		{"tar", false, func(dir string, cs []child) (hackpadfs.FS, func()) {
			files := map[string][]byte{}
			var dirs []string
			if dir != "." {
				dirs = append(dirs, dir)
			}
			for _, c := range cs {
				if c.isDir {
					dirs = append(dirs, joinP(dir, c.name))
				} else {
					files[joinP(dir, c.name)] = []byte(c.name)
				}
			}
			t, err := hptar.NewReaderFS(context.Background(), bytes.NewReader(tarOf(files, dirs)), hptar.ReaderFSOptions{})
			if err != nil {
				panic(err)
			}
			<-t.Done()
			return t, func() {}
		}},
		{"os", false, func(dir string, cs []child) (hackpadfs.FS, func()) {
			fs, done := newOSWorld()
			populate(fs, dir, cs)
			return fs, done
		}},
	}
}

func genPages(r *Rng, k int) []int {
	switch r.Intn(10) {
	case 8:
		return []int{1, math.MaxInt, 1} // offset + count must not overflow
	case 9:
		return []int{2, math.MaxInt - 1, math.MaxInt}
	case 0:
		return []int{-1, 1, -1}
	case 1:
		return []int{0, 2, 0}
	case 2:
		return []int{k + 1, 1, 1}
	case 3:
		return []int{k, 1, 1}
	case 4:
		if k > 1 {
			return []int{k - 1, 5, 5}
		}
	case 5:
		return []int{1 << 20, 1}
	}
	// mixed positive sizes until exhaustion (+2 extra calls)
	var ps []int
	total := 0
	for total < k+2 {
		n := []int{1, 1, 2, 3, 5, 7}[r.Intn(6)]
		ps = append(ps, n)
		total += n
		if r.Intn(6) == 0 { // a "rest of the directory" call in the middle: the handle must be at the end afterwards
			ps = append(ps, []int{0, -1}[r.Intn(2)])
			total = k + 2
		}
	}
	return append(ps, 1)
}

func runC16(r *Rng, n int, replay string) {
	layers := c16Layers()
	for id := 0; id < n; id++ {
		l := layers[id%len(layers)]
		var k int
		switch r.Pick(2, 5, 2, 1) {
		case 0:
			k = r.Range(0, 1)
		case 1:
			k = r.Range(2, 9)
		case 2:
			k = r.Range(10, 40)
		default:
			k = r.Range(100, 300)
		}
		dir := []string{".", "d", "d/e", ".d", ".d/e", "d/.e", "d[1]", "w?", "s*r/e", "b\\c"}[r.Intn(10)]
		cs := genChildren(r, k)
		pages := genPages(r, k)
		c16SetupErr = ""
		fs, done := l.build(dir, cs)
		c := &Case{ID: id, Kind: l.id}
		c.Text = append(c.Text, fmt.Sprintf("[%s] dir %q with %d children, pages %v", l.id, dir, k, pages))
		if c16SetupErr != "" {
			c.fail(fmt.Sprintf("[%s] dir %q: %s", l.id, dir, c16SetupErr), l.id+":setup")
			done()
			emit(c)
			continue
		}
		c.Cells = []string{fmt.Sprintf("%s/k%d", l.id, bucket(k))}
		want := map[string]bool{}
		var names []string
		for _, ch := range cs {
			want[ch.name] = ch.isDir
			names = append(names, ch.name)
		}
		if dir == "." && l.id == "sub" {
			// nothing else lives in the view's root
		}
		sort.Strings(names)
		fail := func(sig, f string, a ...interface{}) {
			c.fail(fmt.Sprintf("[%s] dir %q (%d children): ", l.id, dir, k)+fmt.Sprintf(f, a...), l.id+":"+sig)
		}
		func() {
			defer func() {
				if e := recover(); e != nil {
					fail("panic", "panicked: %v", e)
				}
			}()
			// by-name listing
			es, err := hackpadfs.ReadDir(fs, dir)
			if err != nil {
				fail("byname:error", "ReadDir failed: %v", err)
				return
			}
			var got []string
			for _, e := range es {
				got = append(got, e.Name())
			}
			extra := 0
			if dir == "." && (l.id == "mount") {
				extra = 0
			}
			_ = extra
			if fmt.Sprint(got) != fmt.Sprint(names) {
				fail("byname:names", "by-name listing %v, expected (sorted, each once) %v", got, names)
			}
			for _, e := range es {
				info, err := hackpadfs.Stat(fs, joinP(dir, e.Name()))
				if err != nil {
					fail("byname:stat", "listed child %q cannot be Stat'ed: %v", e.Name(), err)
					continue
				}
				if e.IsDir() != info.IsDir() || e.Type() != info.Mode().Type() {
					fail("byname:kind", "child %q: kind in listing differs from Stat", e.Name())
				}
				mountPoint := false
				if l.id == "mount" || l.id == "nested" {
					for _, ch := range cs {
						if ch.isDir {
							mountPoint = ch.name == e.Name()
							break
						}
					}
				}
				if mountPoint {
					continue // a child that is a mount point: name and kind only
				}
				if ei, err := e.Info(); err != nil || ei.Name() != info.Name() || ei.IsDir() != info.IsDir() ||
					(!info.IsDir() && ei.Size() != info.Size()) || ei.Mode() != info.Mode() {
					fail("byname:info", "child %q: Info() differs from Stat", e.Name())
				}
				if isDir, ok := want[e.Name()]; ok && isDir != e.IsDir() {
					fail("byname:kind", "child %q: wrong kind", e.Name())
				}
			}
			// a non-directory cannot be listed
			for _, ch := range cs {
				if !ch.isDir {
					_, err := hackpadfs.ReadDir(fs, joinP(dir, ch.name))
					if err == nil || classOf(err) != "ENOTDIR" {
						fail("notdir", "ReadDir of the regular file %q: %v (want ErrNotDir)", ch.name, err)
					}
					break
				}
			}
			// ... nor through a handle: one from Open, one from OpenFile(read-write), and the handle that CREATED the file
			// (where the layer can create; the file is removed again before the directory is paged)
			for _, ch := range cs {
				if ch.isDir {
					continue
				}
				p := joinP(dir, ch.name)
				fresh := joinP(dir, "zz-fresh")
				for hi, open := range []func() (hackpadfs.File, error){
					func() (hackpadfs.File, error) { return fs.Open(p) },
					func() (hackpadfs.File, error) { return hackpadfs.OpenFile(fs, p, hackpadfs.FlagReadWrite, 0) },
					func() (hackpadfs.File, error) {
						return hackpadfs.OpenFile(fs, fresh, hackpadfs.FlagReadWrite|hackpadfs.FlagCreate|hackpadfs.FlagExclusive, 0o644)
					},
					func() (hackpadfs.File, error) {
						return hackpadfs.OpenFile(fs, fresh, hackpadfs.FlagReadOnly|hackpadfs.FlagCreate, 0o644)
					},
				} {
					h, err := open()
					if err != nil {
						continue // (a layer that cannot open for writing or create)
					}
					for _, cnt := range []int{-1, 1} {
						ents, rerr := hackpadfs.ReadDirFile(h, cnt)
						if rerr == nil || classOf(rerr) != "ENOTDIR" {
							fail("notdir-handle", "ReadDir(%d) on handle kind %d of a regular file: %d entries, %v (want ErrNotDir)", cnt, hi, len(ents), rerr)
						}
					}
					_ = h.Close()
					if hi >= 2 {
						_ = hackpadfs.Remove(fs, fresh)
					}
				}
				break
			}
			// paging
			f, err := fs.Open(dir)
			if err != nil {
				fail("open", "cannot open the directory: %v", err)
				return
			}
			defer f.Close()
			seen := map[string]int{}
			remaining := k
			for pi, p := range pages {
				page, err := hackpadfs.ReadDirFile(f, p)
				for _, e := range page {
					seen[e.Name()]++
				}
				c.Text = append(c.Text, fmt.Sprintf("  ReadDir(%d) -> %d entries, err=%v", p, len(page), err))
				if p <= 0 { // like os.File: all entries that remain, nil error, and the handle is at the end afterwards
					_ = pi
					if err != nil || len(page) != remaining {
						fail("page:rest", "ReadDir(%d) returned %d entries, err=%v (want the %d remaining of %d, nil)", p, len(page), err, remaining, k)
					}
					remaining = 0
					continue
				}
				switch {
				case err != nil && err != io.EOF:
					fail("page:error", "ReadDir(%d) failed: %v", p, err)
				case len(page) == 0 && err == nil:
					fail("page:empty-nil", "ReadDir(%d) returned an empty page with a nil error", p)
				case err == io.EOF && (remaining != 0 || len(page) != 0):
					fail("page:early-eof", "ReadDir(%d) returned io.EOF with %d entries while %d remained", p, len(page), remaining)
				case err == nil && remaining == 0:
					fail("page:no-eof", "ReadDir(%d) returned %d entries without io.EOF although none remained", p, len(page))
				case len(page) > p:
					fail("page:too-many", "ReadDir(%d) returned %d entries", p, len(page))
				case err == nil && len(page) < p && len(page) < remaining:
					// short pages are allowed by io/fs, but every entry must still arrive exactly once
				}
				remaining -= len(page)
				if remaining < 0 {
					remaining = 0
				}
			}
			exhausted := false
			total := 0
			for _, p := range pages {
				if p <= 0 {
					exhausted = true
				} else {
					total += p
				}
			}
			if total >= k {
				exhausted = true
			}
			for n, cnt := range seen {
				if cnt > 1 {
					fail("page:dup", "child %q appeared %d times across the pages", n, cnt)
				}
				if _, ok := want[n]; !ok {
					fail("page:unknown", "unknown child %q in a page", n)
				}
			}
			if exhausted && len(seen) != k {
				fail("page:missing", "pages delivered %d of %d children", len(seen), k)
			}
		}()
		// model correspondence (kv-based layers): the same directory, the same page sizes
		if l.model && c.Oracle == "" && k <= 40 {
			mfs := newMem()
			if l.id == "kvplain" {
				mfs, _ = newKVPlain()
			}
			w := &World{FS: mfs}
			var ops []Op
			if dir != "." {
				ops = append(ops, Op{Kind: "mkdirall", P: dir, Perm: 0o755})
			}
			for _, ch := range cs {
				if ch.isDir {
					ops = append(ops, Op{Kind: "mkdir", P: joinP(dir, ch.name), Perm: 0o750})
				} else {
					ops = append(ops, Op{Kind: "writefile", P: joinP(dir, ch.name), Data: []byte(ch.name), Perm: 0o640})
				}
			}
			ops = append(ops, Op{Kind: "readdir", P: dir}, Op{Kind: "open", P: dir})
			for _, p := range pages {
				ops = append(ops, Op{Kind: "h:readdir", H: 0, N: p})
			}
			var opsC, items []string
			for _, o := range ops {
				ob := w.Apply(o)
				opsC = append(opsC, o.coq())
				items = append(items, cPair(ob.coq(), "[]"))
			}
			w.CloseAll()
			c.Coq = cPair(cList(opsC), cList(items))
			c.Check = "C16_check"
		}
		done()
		emit(c)
	}
	_ = gofs.ModeDir
	runC16Retry(r, n/8, n)
	runC16Covered(n + n/8 + 1)
}

// runC16Covered: a mount point must be a directory of the file system its path routes to.  The root has a/b, but the
// file system mounted at a has no b: either AddMount("a/b") is refused, or b shows up in the listing of a -- a child
// that Stat accepts and its parent's listing lacks is exactly what the property excludes.
func runC16Covered(firstID int) {
	for v := 0; v < 3; v++ {
		outer, inner := []string{"a", "d", ".d"}[v], []string{"b", "e", "e"}[v]
		root, m1, m2 := newMem(), newMem(), newMem()
		_ = hackpadfs.MkdirAll(root, outer+"/"+inner, 0o755)
		_ = hackpadfs.WriteFullFile(m1, "x", []byte{1}, 0o644)
		_ = hackpadfs.WriteFullFile(m2, "y", []byte{2}, 0o644)
		c := &Case{ID: firstID + v, Kind: "covered", Trivial: true}
		c.Cells = []string{"covered"}
		m, _ := mount.NewFS(root)
		if err := m.AddMount(outer, m1); err != nil {
			c.fail(fmt.Sprintf("[covered] AddMount(%q) failed although the root has that directory: %v", outer, err), "covered:setup")
			emit(c)
			continue
		}
		p := outer + "/" + inner
		err := m.AddMount(p, m2)
		c.Text = []string{fmt.Sprintf("[covered] root has %s, the file system mounted at %q has no %q; AddMount(%q) -> %v", p, outer, inner, p, err)}
		if err == nil {
			es, lerr := hackpadfs.ReadDir(m, outer)
			listed := false
			for _, e := range es {
				if e.Name() == inner {
					listed = true
				}
			}
			if _, serr := hackpadfs.Stat(m, p); serr == nil && lerr == nil && !listed {
				var names []string
				for _, e := range es {
					names = append(names, e.Name())
				}
				c.fail(fmt.Sprintf("%s: Stat(%q) succeeds but the listing of %q is %v: a child is missing from its parent's listing", c.Text[0], p, outer, names), "covered:unlisted")
			}
		}
		emit(c)
	}
}

// runC16Retry: a page whose entries could not be loaded (one store call fails once) delivers nothing, so it must not
// consume anything either: the caller reads on and still gets every child exactly once (key-value FS over a plain store).
func runC16Retry(r *Rng, n, firstID int) {
	for id := firstID; id < firstID+n; id++ {
		k := r.Range(2, 12)
		dir := []string{".", "d", "d/e", ".d", ".d/e", "d/.e"}[r.Intn(6)]
		cs := genChildren(r, k)
		fs, ps := newKVPlain()
		populate(fs, dir, cs)
		size := r.Range(1, 4)
		failPage := r.Intn((k + size - 1) / size)
		c := &Case{ID: id, Kind: "kvplain-retry", Trivial: true}
		c.Cells = []string{"kvplain-retry"}
		c.Text = []string{fmt.Sprintf("[kvplain] dir %q with %d children read in pages of %d; one store call fails during page %d, the caller reads on", dir, k, size, failPage)}
		f, err := fs.Open(dir)
		if err != nil {
			panic(err)
		}
		seen := map[string]int{}
		failed := 0
		sticky := false
		for pi := 0; pi < 4*k+8; pi++ {
			if pi == failPage && failed == 0 {
				// one of the look-ups of this page's children (the listing itself is loaded, and memoised by the
				// handle, with the first page: a failure there is remembered and is not this stage's subject)
				ps.failAt = ps.calls + r.Intn(size)
				if pi == 0 {
					ps.failAt++
				}
			}
			page, err := hackpadfs.ReadDirFile(f, size)
			ps.failAt = -1
			c.Text = append(c.Text, fmt.Sprintf("  ReadDir(%d) -> %d entries, err=%v", size, len(page), err))
			if err != nil && err != io.EOF {
				failed++
				if failed > 1 {
					sticky = true // the handle remembers the failure: nothing to read on from
					break
				}
				if len(page) != 0 {
					c.fail(fmt.Sprintf("[kvplain] dir %q: a failing ReadDir(%d) also returned %d entries", dir, size, len(page)), "kvplain:retry:entries-with-error")
				}
				continue
			}
			for _, e := range page {
				seen[e.Name()]++
			}
			if err == io.EOF {
				break
			}
		}
		_ = f.Close()
		for nm, cnt := range seen {
			if cnt > 1 {
				c.fail(fmt.Sprintf("[kvplain] dir %q: child %q appeared %d times although one page had failed and was read again", dir, nm, cnt), "kvplain:retry:dup")
			}
		}
		if !sticky && len(seen) != k {
			c.fail(fmt.Sprintf("[kvplain] dir %q: %d of %d children delivered after a page failed once (%d failing calls): the failed page's entries were skipped", dir, len(seen), k, failed), "kvplain:retry:missing")
		}
		emit(c)
	}
}

func bucket(k int) int {
	switch {
	case k <= 1:
		return 0
	case k < 10:
		return 1
	case k <= 40:
		return 2
	}
	return 3
}
