package main

import (
	"bytes"
	"context"
	"errors"
	"fmt"
	"io"
	"strings"
	"sync"
	"sync/atomic"
	"time"

	"github.com/hack-pad/hackpadfs"
	"github.com/hack-pad/hackpadfs/mem"
	hptar "github.com/hack-pad/hackpadfs/tar"
)

func init() { commands["C13"] = runC13 }

// stepReader hands out the archive block by block; the test decides how far it may go.
type stepReader struct {
	data    []byte
	pos     int
	limit   int64 // bytes released so far (atomic)
	cutAt   int   // the stream ends here: io.EOF (truncation) or failErr
	failErr error
	mu      sync.Mutex
	cond    *sync.Cond
	closed  bool
	endOK   bool // the end of the stream (EOF / error) may be reported
}

func newStepReader(data []byte, cutAt int, failErr error) *stepReader {
	s := &stepReader{data: data, cutAt: cutAt, failErr: failErr}
	s.cond = sync.NewCond(&s.mu)
	return s
}

// Close: the reader is an io.Closer whose Close takes a moment (a network connection, say): everything that must be in
// place when Done() fires has to be in place BEFORE the reader is closed
func (s *stepReader) Close() error {
	time.Sleep(15 * time.Millisecond)
	return nil
}

func (s *stepReader) release(n int) {
	s.mu.Lock()
	atomic.AddInt64(&s.limit, int64(n))
	s.cond.Broadcast()
	s.mu.Unlock()
}

func (s *stepReader) releaseAll() {
	s.mu.Lock()
	s.endOK = true
	s.mu.Unlock()
	s.release(len(s.data) + 1024)
}

func (s *stepReader) Read(p []byte) (int, error) {
	s.mu.Lock()
	defer s.mu.Unlock()
	for {
		end := len(s.data)
		if s.cutAt >= 0 && s.cutAt < end {
			end = s.cutAt
		}
		avail := int(atomic.LoadInt64(&s.limit))
		if avail > end {
			avail = end
		}
		if s.pos < avail {
			n := copy(p, s.data[s.pos:avail])
			s.pos += n
			return n, nil
		}
		if s.pos >= end && int(atomic.LoadInt64(&s.limit)) >= end && s.endOK {
			if s.cutAt >= 0 && s.cutAt < len(s.data) && s.failErr != nil {
				return 0, s.failErr
			}
			return 0, io.EOF
		}
		if s.closed {
			return 0, io.ErrClosedPipe
		}
		s.cond.Wait()
	}
}

// failingDest fails the k-th mutating call of the destination FS.
type failingDest struct {
	fs     *mem.FS
	calls  int64
	failAt int64
	pause  chan struct{} // when non-nil, Write waits for a token first
	// failFrom >= 0: every mutating call from this one on fails (a full disk); the failing calls gather (three of them,
	// or 30 ms) before they return, so that several background writes fail at the same moment
	failFrom int64
	pending  int64
	full     bool
	// failNames: OpenFile of these names fails (the background write of that entry), nothing else does; the failing calls
	// gather like those of a full disk
	failNames map[string]bool
	// holdName: OpenFile of this name (the background write of that entry) is held until OpenFile of another name has
	// been called afterwards, or 150 ms
	holdName string
	holdMu   sync.Mutex
	holding  bool
	holdCh   chan struct{}
}

type failingFile struct {
	hackpadfs.File
	d *failingDest
}

func (d *failingDest) tick() error {
	n := atomic.AddInt64(&d.calls, 1) - 1
	if n == d.failAt {
		return &hackpadfs.PathError{Op: "injected", Path: "dest", Err: errInjected}
	}
	if d.full && n >= d.failFrom {
		atomic.AddInt64(&d.pending, 1)
		deadline := time.Now().Add(30 * time.Millisecond)
		for atomic.LoadInt64(&d.pending) < 3 && time.Now().Before(deadline) {
			time.Sleep(200 * time.Microsecond)
		}
		return &hackpadfs.PathError{Op: "injected", Path: "dest", Err: errInjected}
	}
	return nil
}
func (d *failingDest) Open(name string) (hackpadfs.File, error) { return d.fs.Open(name) }
func (d *failingDest) OpenFile(name string, flag int, perm hackpadfs.FileMode) (hackpadfs.File, error) {
	if d.holdName != "" {
		d.holdMu.Lock()
		if name == d.holdName && d.holdCh == nil {
			d.holding, d.holdCh = true, make(chan struct{})
			ch := d.holdCh
			d.holdMu.Unlock()
			select {
			case <-ch:
			case <-time.After(150 * time.Millisecond):
			}
		} else {
			if d.holding && name != d.holdName {
				d.holding = false
				close(d.holdCh)
			}
			d.holdMu.Unlock()
		}
	}
	if d.failNames[name] {
		atomic.AddInt64(&d.pending, 1)
		deadline := time.Now().Add(30 * time.Millisecond)
		for atomic.LoadInt64(&d.pending) < int64(len(d.failNames)) && atomic.LoadInt64(&d.pending) < 3 && time.Now().Before(deadline) {
			time.Sleep(200 * time.Microsecond)
		}
		return nil, &hackpadfs.PathError{Op: "injected", Path: name, Err: errInjected}
	}
	if err := d.tick(); err != nil {
		return nil, err
	}
	f, err := d.fs.OpenFile(name, flag, perm)
	if err != nil {
		return nil, err
	}
	return &failingFile{f, d}, nil
}
func (d *failingDest) Chmod(name string, mode hackpadfs.FileMode) error {
	if err := d.tick(); err != nil {
		return err
	}
	return d.fs.Chmod(name, mode)
}
func (d *failingDest) Mkdir(name string, perm hackpadfs.FileMode) error {
	if err := d.tick(); err != nil {
		return err
	}
	return d.fs.Mkdir(name, perm)
}
func (d *failingDest) MkdirAll(name string, perm hackpadfs.FileMode) error {
	if err := d.tick(); err != nil {
		return err
	}
	return d.fs.MkdirAll(name, perm)
}
func (f *failingFile) Write(p []byte) (int, error) {
	if f.d.pause != nil {
		select {
		case <-f.d.pause:
		case <-time.After(3 * time.Millisecond):
		}
	}
	if err := f.d.tick(); err != nil {
		if len(p) > 1 {
			_, _ = hackpadfs.WriteFile(f.File, p[:len(p)/2])
		}
		return len(p) / 2, err
	}
	// write in two halves so that an observer can see the file half-written
	if len(p) > 1 {
		n1, err := hackpadfs.WriteFile(f.File, p[:len(p)/2])
		if err != nil {
			return n1, err
		}
		time.Sleep(200 * time.Microsecond)
		n2, err := hackpadfs.WriteFile(f.File, p[len(p)/2:])
		return n1 + n2, err
	}
	return hackpadfs.WriteFile(f.File, p)
}

type c13Archive struct {
	entries []tEntry
	data    []byte
}

func c13Archives() []c13Archive {
	mk := func(es []tEntry) c13Archive { return c13Archive{es, buildTar(es)} }
	fill := func(n int, seed byte) []byte {
		d := make([]byte, n)
		for i := range d {
			d[i] = byte(i)*3 + seed
		}
		return d
	}
	return []c13Archive{
		mk([]tEntry{{name: "a", perm: 0o644, data: fill(700, 1)}}),
		mk([]tEntry{{name: "a", perm: 0o644, data: fill(1500, 2)}, {name: "b", perm: 0o600, data: fill(10, 3)}}),
		mk([]tEntry{{name: "d", isDir: true, perm: 0o755}, {name: "d/x", perm: 0o644, data: fill(2000, 4)}, {name: "d/y", perm: 0o644, data: fill(0, 5)}, {name: "z", perm: 0o644, data: fill(513, 6)}}),
		mk([]tEntry{{name: "big", perm: 0o644, data: fill(150*1024+3000, 7)}, {name: "after", perm: 0o644, data: fill(100, 8)}}),
		mk([]tEntry{{name: "p/q/r", perm: 0o644, data: fill(1024, 9)}, {name: "p", isDir: true, perm: 0o700}, {name: "s", perm: 0o644, data: fill(3000, 10)}}),
		mk([]tEntry{{name: "e1", perm: 0o644, data: fill(600, 11)}, {name: "e2", perm: 0o644, data: fill(600, 12)}, {name: "e3", perm: 0o644, data: fill(600, 13)}}),
		// many small files: several background writes are in flight at once
		mk([]tEntry{{name: "m0", perm: 0o644, data: fill(300, 20)}, {name: "m1", perm: 0o644, data: fill(40, 21)}, {name: "m2", perm: 0o600, data: fill(513, 22)},
			{name: "m3", perm: 0o644, data: fill(0, 23)}, {name: "m4", perm: 0o644, data: fill(900, 24)}, {name: "m5", perm: 0o644, data: fill(77, 25)}, {name: "m6", perm: 0o644, data: fill(1, 26)}}),
		// the same base name at several depths, the big one last: announcements must be by full name
		mk([]tEntry{{name: "sub/n", perm: 0o644, data: fill(700, 14)}, {name: "t/n", perm: 0o600, data: fill(0, 15)}, {name: "n", perm: 0o644, data: fill(150*1024+2000, 16)}}),
	}
}

func runC13(r *Rng, n int, replay string) {
	defer runC13HeldWrites(800000)
	archives := c13Archives()
	id := 0
	emitC := func(c *Case) { c.ID = id; id++; emit(c) }
	// ---- (a) pubsub and bufferPool driven directly ----
	for t := 0; t < 40 && id < n/4+1; t++ {
		c := &Case{Kind: "pubsub"}
		ctx, cancel := context.WithCancel(context.Background())
		ps := hptar.NewPubsubVerif(ctx)
		keys := []string{"k1", "k2"}
		type waiter struct {
			key  string
			done chan struct{}
		}
		var ws []waiter
		emitted := map[string]bool{}
		cancelled := false
		var script []string
		var obsRows, scriptC []string
		check := func(after string) {
			time.Sleep(1500 * time.Microsecond)
			defer func() {
				var row []string
				for i := range ws {
					select {
					case <-ws[i].done:
						row = append(row, "true")
					default:
						row = append(row, "false")
					}
				}
				obsRows = append(obsRows, cList(row))
			}()
			for i, w := range ws {
				returned := false
				select {
				case <-w.done:
					returned = true
				default:
				}
				should := emitted[w.key] || cancelled
				if returned && !should {
					c.fail(fmt.Sprintf("pubsub %v: after %s waiter %d on %q returned although the key was not emitted and the context not cancelled", script, after, i, w.key), "pubsub:early")
				}
				if !returned && should {
					time.Sleep(50 * time.Millisecond)
					select {
					case <-w.done:
					default:
						c.fail(fmt.Sprintf("pubsub %v: after %s waiter %d on %q is still blocked", script, after, i, w.key), "pubsub:stuck")
					}
				}
			}
		}
		steps := r.Range(3, 7)
		for s := 0; s < steps; s++ {
			switch r.Pick(4, 3, 1) {
			case 0:
				k := keys[r.Intn(2)]
				w := waiter{k, make(chan struct{})}
				ws = append(ws, w)
				go func() { ps.Wait(w.key); close(w.done) }()
				script = append(script, "wait "+k)
				scriptC = append(scriptC, "PWait "+cStr(k))
			case 1:
				k := keys[r.Intn(2)]
				ps.Emit(k)
				emitted[k] = true
				script = append(script, "emit "+k)
				scriptC = append(scriptC, "PEmit "+cStr(k))
			default:
				cancel()
				cancelled = true
				script = append(script, "cancel")
				scriptC = append(scriptC, "PCancel")
			}
			check(script[len(script)-1])
		}
		cancel()
		c.Text = []string{fmt.Sprintf("pubsub script %v", script)}
		c.Cells = []string{"pubsub"}
		c.Coq = cPair(cList(scriptC), cList(obsRows))
		c.Check, c.CType = "C13_pubsub_check", "C13_pubsub_case"
		emitC(c)
	}
	for t := 0; t < 20 && id < n/2+1; t++ {
		c := &Case{Kind: "bufferpool"}
		max := uint64(1 + t%4)
		pool := hptar.NewBufferPoolVerif(64, max)
		k := int(max) + 1 + t%3
		var outstanding, peak int64
		var wg sync.WaitGroup
		finished := make(chan struct{})
		for g := 0; g < k; g++ {
			wg.Add(1)
			go func() {
				defer wg.Done()
				for i := 0; i < 20; i++ {
					b := pool.Wait()
					cur := atomic.AddInt64(&outstanding, 1)
					for {
						p := atomic.LoadInt64(&peak)
						if cur <= p || atomic.CompareAndSwapInt64(&peak, p, cur) {
							break
						}
					}
					if b.Len() != 64 {
						c.fail("bufferPool: buffer of the wrong size", "pool:size")
					}
					time.Sleep(50 * time.Microsecond)
					atomic.AddInt64(&outstanding, -1)
					b.Done()
				}
			}()
		}
		go func() { wg.Wait(); close(finished) }()
		select {
		case <-finished:
		case <-time.After(10 * time.Second):
			c.fail(fmt.Sprintf("bufferPool(max %d) with %d users: not every Wait returned", max, k), "pool:stuck")
		}
		if peak > int64(max) || pool.Count() > int64(max) {
			c.fail(fmt.Sprintf("bufferPool(max %d): %d buffers outstanding at once, %d allocated", max, peak, pool.Count()), "pool:bound")
		}
		c.Text = []string{fmt.Sprintf("bufferPool max=%d users=%d peak=%d allocated=%d", max, k, peak, pool.Count())}
		c.Cells = []string{"bufferpool"}
		emitC(c)
	}
	// ---- (a') an Emit that lands exactly between a waiter's "not yet emitted" check and its registration ----
	// (the registration derives a child context from the pubsub's context: a context whose Value method is a hook is
	//  called at that very point; from there another goroutine emits the key and is given time to finish)
	for t := 0; t < 4; t++ {
		c := &Case{Kind: "pubsub-gap", Trivial: true}
		c.Cells = []string{"pubsub/gap"}
		base, cancel := context.WithCancel(context.Background())
		hc := &hookCtx{Context: base}
		ps := hptar.NewPubsubVerif(hc)
		emitDone := make(chan struct{})
		var once sync.Once
		hc.hook = func() {
			once.Do(func() {
				go func() { ps.Emit("k"); close(emitDone) }()
				select {
				case <-emitDone:
				case <-time.After(3 * time.Millisecond): // (blocked on the lock the waiter holds: the usual case)
				}
			})
		}
		waitDone := make(chan struct{})
		go func() { ps.Wait("k"); close(waitDone) }()
		c.Text = []string{"pubsub: Emit(k) issued from inside Wait(k)'s registration step (another goroutine)"}
		select {
		case <-waitDone:
		case <-time.After(2 * time.Second):
			c.fail("pubsub: a Wait(k) that was registering while Emit(k) ran is still blocked 2 s after the Emit: lost wake-up", "pubsub:gap:lost-wakeup")
		}
		cancel()
		emitC(c)
	}
	// ---- (a2) the reader's end against its model: an archive of small files (every write is a background write), a chosen
	// subset of which fails; nothing else fails.  Done() must fire, and whether an error is reported is what EVERY
	// interleaving of the model says.
	for t := 0; t < 14 && id < n; t++ {
		k := 1 + t%6
		var es []tEntry
		for i := 0; i < k; i++ {
			d := make([]byte, 10+37*i)
			for j := range d {
				d[j] = byte(i + j)
			}
			es = append(es, tEntry{name: fmt.Sprintf("w%d", i), perm: 0o644, data: d})
		}
		fail := map[string]bool{}
		var flags []string
		for i := 0; i < k; i++ {
			f := r.Intn(5) < 2 || (t%4 == 3) // some runs: everything fails
			if t%5 == 0 {
				f = false
			}
			if f {
				fail[es[i].name] = true
			}
			flags = append(flags, cBool(f))
		}
		dest := &failingDest{fs: newMem().(*mem.FS), failAt: -1, failNames: fail}
		c := &Case{Kind: "workers", Check: "C13_workers_check", CType: "C13_workers_case"}
		c.Cells = []string{fmt.Sprintf("workers/k%d/fail%d", k, len(fail))}
		hdr := fmt.Sprintf("archive of %d small files, the background writes of %d of them fail", k, len(fail))
		c.Text = []string{hdr}
		tfs, err := hptar.NewReaderFS(context.Background(), bytes.NewReader(buildTar(es)), hptar.ReaderFSOptions{UnarchiveFS: dest})
		if err != nil {
			c.fail(hdr+": NewReaderFS: "+err.Error(), "workers:new")
			emitC(c)
			continue
		}
		select {
		case <-tfs.Done():
			uerr := tfs.UnarchiveErr()
			c.Text = append(c.Text, fmt.Sprintf("UnarchiveErr=%v", uerr))
			if len(fail) > 0 && uerr == nil {
				c.fail(hdr+": no error is reported", "workers:silent")
			}
			for _, e := range es {
				f, oerr := tfs.Open(e.name)
				if oerr == nil {
					var buf bytes.Buffer
					_, _ = io.Copy(&buf, f)
					_ = f.Close()
					if fail[e.name] || !bytes.Equal(buf.Bytes(), e.data) {
						c.fail(fmt.Sprintf("%s: Open(%q) succeeds with %d of %d bytes (its write failed: %v)", hdr, e.name, buf.Len(), len(e.data), fail[e.name]), "workers:partial")
					}
				}
			}
			c.Coq = cPair(cList(flags), cBool(uerr != nil))
		case <-time.After(10 * time.Second):
			c.fail(hdr+": Done() did not fire within 10 s of the end of the stream", "workers:done-stuck")
		}
		emitC(c)
	}
	// ---- (b) end to end ----
	for it := 0; id < n; it++ {
		ar := archives[it%len(archives)]
		blocks := (len(ar.data) + 511) / 512
		mode := []string{"clean", "truncate", "readerr", "cancel", "destfail", "destfull"}[(it/len(archives))%6]
		point := r.Intn(blocks + 1)
		c := &Case{Kind: "stream/" + mode}
		var names []string
		for _, e := range ar.entries {
			names = append(names, fmt.Sprintf("%s(%d)", e.name, len(e.data)))
		}
		hdr := fmt.Sprintf("archive %v (%d blocks), %s at block %d", names, blocks, mode, point)
		c.Text = []string{hdr}
		c.Cells = []string{"stream/" + mode}
		cut := -1
		var ferr error
		switch mode {
		case "truncate":
			cut = point * 512
		case "readerr":
			cut, ferr = point*512, errors.New("injected stream failure")
		}
		sr := newStepReader(ar.data, cut, ferr)
		dest := &failingDest{fs: newMem().(*mem.FS), failAt: -1, pause: make(chan struct{}, 1024)}
		if mode == "destfail" {
			dest.failAt = int64(r.Intn(2*len(ar.entries) + 2))
		}
		if mode == "destfull" {
			// the destination refuses everything from some call on (at the latest from the second one)
			dest.full, dest.failFrom = true, int64(r.Intn(2))
		}
		ctx, cancel := context.WithCancel(context.Background())
		tfs, err := hptar.NewReaderFS(ctx, sr, hptar.ReaderFSOptions{UnarchiveFS: dest})
		if err != nil {
			c.fail(hdr+": NewReaderFS: "+err.Error(), "new")
			emitC(c)
			cancel()
			continue
		}
		// openers: one per entry plus a missing name, started at different phases
		type result struct {
			name string
			err  error
			data []byte
			isD  bool
		}
		results := make(chan result, 64)
		var wg sync.WaitGroup
		var returned int64 // openers that have come back
		openOne := func(name string) {
			wg.Add(1)
			go func() {
				defer wg.Done()
				defer atomic.AddInt64(&returned, 1)
				f, err := tfs.Open(name)
				if err != nil {
					results <- result{name: name, err: err}
					return
				}
				defer f.Close()
				info, _ := f.Stat()
				if info != nil && info.IsDir() {
					results <- result{name: name, isD: true}
					return
				}
				var buf bytes.Buffer
				_, rerr := io.Copy(&buf, f)
				results <- result{name: name, data: buf.Bytes(), err: rerr}
			}()
		}
		nOpeners := 1 + it%8
		targets := []string{"nope"}
		for _, e := range ar.entries {
			targets = append(targets, resolveRef(e.name))
		}
		started := 0
		startSome := func(k int) {
			for ; k > 0 && started < nOpeners; k-- {
				openOne(targets[(started+it)%len(targets)])
				started++
			}
		}
		// some openers start at random points of the stream (in the middle of a large entry, say), the others early
		lateAt := map[int]int{}
		for k := 0; k < nOpeners/2; k++ {
			lateAt[r.Intn(blocks+1)]++
		}
		early := nOpeners - nOpeners/2
		startSome(1 + early/3) // before any byte arrived
		// release the stream block by block, starting openers on the way
		for b := 0; b < blocks; b++ {
			if mode == "cancel" && b == point {
				cancel()
				// the stream is stalled right now (nothing further is released until this check is over): every Open that
				// is pending must come back because of the cancellation, not because the stream happens to go on
				deadline := time.Now().Add(3 * time.Second)
				for atomic.LoadInt64(&returned) < int64(started) && time.Now().Before(deadline) {
					time.Sleep(200 * time.Microsecond)
				}
				if atomic.LoadInt64(&returned) < int64(started) {
					c.fail(hdr+": after the caller cancelled, with the stream stalled, a pending Open did not return", "stream:cancel:open-stuck-while-stalled")
				}
			}
			sr.release(512)
			if k := lateAt[b]; k > 0 {
				time.Sleep(200 * time.Microsecond) // let the reader take what was released
				startSome(k)
				early += k
			}
			if b%3 == 0 {
				if started < early {
					startSome(1)
				}
				select {
				case dest.pause <- struct{}{}:
				default:
				}
			}
			if b%7 == 0 {
				time.Sleep(100 * time.Microsecond)
			}
		}
		if mode == "cancel" && point >= blocks {
			cancel()
		}
		// everything before the end of the stream has been delivered; the end itself (EOF, truncation or
		// the read error) is reported a little later, as on a slow connection
		startSome(nOpeners / 2)
		for k := 0; k < 20; k++ {
			select {
			case dest.pause <- struct{}{}:
			default:
			}
			time.Sleep(time.Millisecond)
		}
		sr.releaseAll()
		startSome(nOpeners) // after the end
		finished := make(chan struct{})
		go func() { wg.Wait(); close(finished) }()
		select {
		case <-finished:
		case <-time.After(15 * time.Second):
			c.fail(hdr+": an Open did not return after the stream had ended/failed/been cancelled", "stream:"+mode+":open-stuck")
		}
		select {
		case <-tfs.Done():
		case <-time.After(15 * time.Second):
			c.fail(hdr+": Done() did not fire", "stream:"+mode+":done-stuck")
		}
		wedged := false
		for _, f := range c.Fails {
			wedged = wedged || strings.HasSuffix(f.Sig, ":open-stuck") || strings.HasSuffix(f.Sig, ":done-stuck")
		}
		if wedged {
			// the reader is wedged: a further Open from this goroutine would never come back
			cancel()
			emitC(c)
			continue
		}
		close(results)
		uerr := tfs.UnarchiveErr()
		want := map[string][]byte{}
		for _, e := range ar.entries {
			if !e.isDir {
				want[resolveRef(e.name)] = e.data
			}
		}
		for res := range results {
			w, isFile := want[res.name]
			switch {
			case res.err == nil && isFile && !res.isD && !bytes.Equal(res.data, w):
				c.fail(fmt.Sprintf("%s: Open(%q) succeeded with %d of the entry's %d bytes", hdr, res.name, len(res.data), len(w)), "stream:"+mode+":partial")
			case res.err != nil && isFile && mode == "clean":
				// nothing fails in this run: an Open of an entry waits for it and then succeeds
				c.fail(fmt.Sprintf("%s: Open(%q) of an entry of a complete, undisturbed stream failed: %v", hdr, res.name, res.err), "stream:clean:entry-open-failed")
			case res.err == nil && res.name == "nope" && mode == "clean":
				c.fail(fmt.Sprintf("%s: Open of a missing name succeeded", hdr), "stream:"+mode+":missing-opened")
			}
		}
		// after the end: an entry that was not completely unpacked must not open successfully
		for name, w := range want {
			f, err := tfs.Open(name)
			if err != nil {
				continue
			}
			var buf bytes.Buffer
			_, _ = io.Copy(&buf, f)
			_ = f.Close()
			if !bytes.Equal(buf.Bytes(), w) {
				c.fail(fmt.Sprintf("%s: after the end Open(%q) succeeds with %d of %d bytes (UnarchiveErr=%v)", hdr, name, buf.Len(), len(w), uerr), "stream:"+mode+":partial-after-end")
			}
		}
		if mode == "clean" && uerr != nil {
			c.fail(hdr+": a complete stream failed: "+uerr.Error(), "stream:clean:error")
		}
		c.Text = append(c.Text, fmt.Sprintf("UnarchiveErr=%v", uerr))
		cancel()
		emitC(c)
	}
}

// hookCtx: a context whose Value method calls a hook (context.WithCancel(parent) asks the parent for a value
// while it links the child to it).
type hookCtx struct {
	context.Context
	hook func()
}

func (h *hookCtx) Value(key interface{}) interface{} {
	if h.hook != nil {
		h.hook()
	}
	return h.Context.Value(key)
}

// runC13HeldWrites: the background write of one small entry is held (in the destination's OpenFile) until the reader has
// gone on to the next entry -- after a large entry, after small ones, first or later in the archive.  Whatever the
// overlap, every entry that can be opened afterwards holds its own complete bytes.
func runC13HeldWrites(idBase int) {
	id := idBase
	fill := func(n int, b byte) []byte { return bytes.Repeat([]byte{b}, n) }
	archives := [][]tEntry{
		{{name: "big", perm: 0o644, data: fill(200*1024, 'x')}, {name: "a", perm: 0o644, data: fill(1000, 'A')}, {name: "b", perm: 0o644, data: fill(1000, 'B')}, {name: "c", perm: 0o600, data: fill(700, 'C')}},
		{{name: "a", perm: 0o644, data: fill(1000, 'A')}, {name: "b", perm: 0o644, data: fill(900, 'B')}, {name: "big", perm: 0o644, data: fill(160*1024, 'x')}, {name: "c", perm: 0o600, data: fill(700, 'C')}, {name: "d", perm: 0o600, data: fill(10, 'D')}},
		{{name: "big1", perm: 0o644, data: fill(154*1024, 'x')}, {name: "big2", perm: 0o644, data: fill(300*1024, 'y')}, {name: "a", perm: 0o644, data: fill(512, 'A')}, {name: "b", perm: 0o644, data: fill(513, 'B')}, {name: "c", perm: 0o644, data: fill(1, 'C')}},
	}
	for ai, es := range archives {
		for _, e := range es {
			if len(e.data) > 150*1024 {
				continue
			}
			c := &Case{ID: id, Kind: "held-write", Trivial: true}
			id++
			c.Cells = []string{"held-write"}
			dest := &failingDest{fs: newMem().(*mem.FS), failAt: -1, holdName: e.name}
			tfs, err := hptar.NewReaderFS(context.Background(), bytes.NewReader(buildTar(es)), hptar.ReaderFSOptions{UnarchiveFS: dest})
			if err != nil {
				panic(err)
			}
			select {
			case <-tfs.Done():
			case <-time.After(10 * time.Second):
				c.fail(fmt.Sprintf("archive %d, write of %q held: the reader never finished", ai, e.name), "held-write:hang")
				emit(c)
				continue
			}
			time.Sleep(2 * time.Millisecond)
			c.Text = []string{fmt.Sprintf("archive %d (%d entries), the background write of %q held until the next entry's write begins; unarchive error: %v", ai, len(es), e.name, tfs.UnarchiveErr())}
			for _, x := range es {
				var got []byte
				var rerr error
				for try := 0; try < 50; try++ { // (the reader does not wait for its last background writes)
					got, rerr = hackpadfs.ReadFile(tfs, x.name)
					if rerr != nil || bytes.Equal(got, x.data) {
						break
					}
					time.Sleep(2 * time.Millisecond)
				}
				if rerr == nil && !bytes.Equal(got, x.data) {
					wrong := 0
					for i := range got {
						if i >= len(x.data) || got[i] != x.data[i] {
							wrong++
						}
					}
					c.fail(fmt.Sprintf("%s: %q opens with %d bytes of which %d are not its own (first byte %q, its own is %q)", c.Text[0], x.name, len(got), wrong, got[:1], x.data[:1]), "held-write:foreign-bytes")
				}
			}
			emit(c)
		}
	}
}
