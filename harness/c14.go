package main

import (
	"bytes"
	"context"
	"fmt"
	"sort"
	"sync"
	"time"

	"github.com/hack-pad/hackpadfs"
	"github.com/hack-pad/hackpadfs/keyvalue"
	"github.com/hack-pad/hackpadfs/keyvalue/blob"
)

func init() { commands["C14"] = runC14 }

// txnStore makes plainStore a TransactionStore: one mutex held from Transaction() to
// Commit/Abort, operations applied at once, one result per call in call order.
type txnStore struct {
	*plainStore
	lock sync.Mutex
}

type ptxn struct {
	s       *txnStore
	ctx     context.Context
	cancel  context.CancelFunc
	results []keyvalue.OpResult
	once    sync.Once
}

func (s *txnStore) Transaction(o keyvalue.TransactionOptions) (keyvalue.Transaction, error) {
	s.lock.Lock()
	ctx, cancel := context.WithCancel(context.Background())
	return &ptxn{s: s, ctx: ctx, cancel: cancel}, nil
}

func (t *ptxn) release() { t.once.Do(func() { t.cancel(); t.s.lock.Unlock() }) }

func (t *ptxn) Get(p string) keyvalue.OpID { return t.GetHandler(p, nil) }
func (t *ptxn) GetHandler(p string, h keyvalue.OpHandler) keyvalue.OpID {
	op := keyvalue.OpID(len(t.results))
	if t.ctx.Err() != nil {
		t.results = append(t.results, keyvalue.OpResult{Op: op, Err: t.ctx.Err()})
		return op
	}
	rec, err := t.s.plainStore.Get(t.ctx, p)
	res := keyvalue.OpResult{Op: op, Record: rec, Err: err}
	if h != nil {
		if herr := h.Handle(t, res); res.Err == nil && herr != nil {
			res.Err = herr
		}
	}
	t.results = append(t.results, res)
	return op
}
func (t *ptxn) Set(p string, src keyvalue.FileRecord, c blob.Blob) keyvalue.OpID {
	return t.SetHandler(p, src, c, nil)
}
func (t *ptxn) SetHandler(p string, src keyvalue.FileRecord, c blob.Blob, h keyvalue.OpHandler) keyvalue.OpID {
	op := keyvalue.OpID(len(t.results))
	if t.ctx.Err() != nil {
		t.results = append(t.results, keyvalue.OpResult{Op: op, Err: t.ctx.Err()})
		return op
	}
	err := t.s.plainStore.Set(t.ctx, p, src)
	res := keyvalue.OpResult{Op: op, Err: err}
	if h != nil {
		if herr := h.Handle(t, res); res.Err == nil && herr != nil {
			res.Err = herr
		}
	}
	t.results = append(t.results, res)
	return op
}
func (t *ptxn) Commit(ctx context.Context) ([]keyvalue.OpResult, error) {
	t.release()
	return t.results, nil
}
func (t *ptxn) Abort() error { t.release(); return nil }

// storeSnapshot reads the store's own contents without going through the FS (no store calls counted).
func storeSnapshot(s *plainStore) []SnapEntry {
	s.mu.Lock()
	defer s.mu.Unlock()
	var out []SnapEntry
	for p, r := range s.recs {
		e := SnapEntry{Path: p, Mode: uint32(r.mode), MT: explicitMT(r.modTime)}
		if r.mode.IsRegular() {
			e.Bytes = append([]byte(nil), r.data.Bytes()...)
		}
		out = append(out, e)
	}
	sort.Slice(out, func(i, j int) bool { return out[i].Path < out[j].Path })
	return out
}

// directed histories that run before the random ones (every store call of each is failed in turn like the others):
// a directory read in pages through one handle, with pages of two and more entries, so that a failed look-up of the
// second or a later child of a page is among the faults whatever the seed
var c14Directed = [][]Op{
	{{Kind: "mkdir", P: "a", Perm: 0o755}, {Kind: "writefile", P: "a/a", Data: []byte{1}, Perm: 0o644}, {Kind: "writefile", P: "a/b", Data: []byte{2, 3}, Perm: 0o600},
		{Kind: "writefile", P: "a/ab", Data: []byte{4}, Perm: 0o644}, {Kind: "open", P: "a", Flag: 0}, {Kind: "h:readdir", H: 0, N: 2}, {Kind: "h:readdir", H: 0, N: 2}, {Kind: "h:readdir", H: 0, N: 1}},
	{{Kind: "mkdir", P: "a", Perm: 0o755}, {Kind: "writefile", P: "a/a", Data: []byte{1}, Perm: 0o644}, {Kind: "mkdir", P: "a/b", Perm: 0o700},
		{Kind: "writefile", P: "a/ab", Data: []byte{4}, Perm: 0o644}, {Kind: "open", P: "a", Flag: 0}, {Kind: "h:readdir", H: 0, N: 3}, {Kind: "h:readdir", H: 0, N: -1}},
	{{Kind: "mkdirall", P: "a/b", Perm: 0o755}, {Kind: "writefile", P: "a/ab", Data: []byte{4}, Perm: 0o644}, {Kind: "open", P: "a", Flag: 0},
		{Kind: "h:readdir", H: 0, N: 1}, {Kind: "h:readdir", H: 0, N: 1}, {Kind: "h:readdir", H: 0, N: 1}, {Kind: "readdir", P: "a"}},
	// operations that write a record back whose contents have not been loaded yet (the load is a store call of its own and
	// can be the one that fails), each followed by operations that need the store again
	{{Kind: "writefile", P: "a", Data: []byte{1, 2, 3}, Perm: 0o644}, {Kind: "chmod", P: "a", Perm: 0o600}, {Kind: "stat", P: "a"},
		{Kind: "rename", P: "a", Q: "b"}, {Kind: "stat", P: "b"}, {Kind: "readfile", P: "b"}, {Kind: "mkdir", P: "ab", Perm: 0o755}},
	{{Kind: "mkdir", P: "a", Perm: 0o755}, {Kind: "writefile", P: "a/b", Data: []byte{7, 8}, Perm: 0o600}, {Kind: "chtimes", P: "a/b", T: 1000}, {Kind: "chmod", P: "a/b", Perm: 0o644},
		{Kind: "rename", P: "a", Q: "ab"}, {Kind: "readfile", P: "ab/b"}, {Kind: "remove", P: "ab/b"}, {Kind: "stat", P: "ab"}},
}

func genFaultHistory(r *Rng) []Op {
	var ops []Op
	if r.Intn(3) == 0 {
		h := genH(r, true)
		if len(h) > 14 {
			h = h[:14]
		}
		return h
	}
	ns := genNS(r, false)
	if len(ns) > 12 {
		ns = ns[:12]
	}
	ops = append(ops, ns...)
	return ops
}

func mutating(o Op) bool {
	switch o.Kind {
	case "stat", "readdir", "readfile", "h:stat", "h:seek", "h:read", "h:readat", "h:readdir", "h:close", "h:sync":
		return false
	}
	return true
}

func runC14(r *Rng, n int, replay string) {
	id := 0
	for hidx := 0; id < n; hidx++ {
		var ops []Op
		if hidx < 2*len(c14Directed) {
			ops = append(ops, c14Directed[hidx/2]...) // each on the plain store and on the transaction store
		} else {
			ops = genFaultHistory(r)
		}
		useTxn := hidx%2 == 1
		mk := func() (hackpadfs.FS, *plainStore) {
			ps := newPlainStore()
			var st keyvalue.Store = ps
			if useTxn {
				st = &txnStore{plainStore: ps}
			}
			fs, err := keyvalue.NewFS(st)
			if err != nil {
				panic(err)
			}
			ps.calls = 0
			return fs, ps
		}
		// fault-free run: number of store calls
		fs0, ps0 := mk()
		w0 := &World{FS: fs0}
		var live []Op
		var cleanObs []string
		var cleanSnap [][]SnapEntry
		for _, o := range ops {
			if len(o.Kind) > 2 && o.Kind[:2] == "h:" && o.H >= len(w0.Handles) {
				continue
			}
			a0 := w0.Apply(o)
			live = append(live, o)
			cleanObs = append(cleanObs, a0.coq())
			cleanSnap = append(cleanSnap, storeSnapshot(ps0))
		}
		w0.CloseAll()
		total := ps0.calls
		kindName := "plain"
		if useTxn {
			kindName = "txn"
		}
		for fault := -1; fault < total && id < n; fault++ {
			// fault == -1: the fault-free run itself (also compared with the model)
			fs, ps := mk()
			ps.failAt = fault
			ps.tracing = true
			w := &World{FS: fs}
			c := &Case{ID: id, Kind: kindName}
			id++
			var opsC, items []string
			fired := false
			for i, o := range live {
				before := ps.calls
				var a Obs
				done := make(chan struct{})
				go func() { defer close(done); a = w.Apply(o) }()
				select {
				case <-done:
				case <-time.After(5 * time.Second):
					c.fail(fmt.Sprintf("[%s] fault at store call %d: step %d (%s) does not return", kindName, fault, i, o), o.Kind+":hang")
					emit(c)
					out.Flush()
					panic("operation did not return")
				}
				firedNow := fault >= before && fault < ps.calls
				c.Text = append(c.Text, fmt.Sprintf("%s -> %s   [store calls %d..%d)%s", o, a, before, ps.calls, map[bool]string{true: "   <- store call failed here", false: ""}[firedNow]))
				opsC = append(opsC, o.coq())
				items = append(items, cPair(a.coq(), snapCoqFS(storeSnapshot(ps))))
				switch {
				case a.Kind == "panic":
					when := "after"
					if firedNow {
						when = "during"
					} else if !fired {
						when = "before"
					}
					c.fail(fmt.Sprintf("[%s] fault at store call %d: step %d (%s) panicked (%s the failing call): %s", kindName, fault, i, o, when, a.Err.Path), o.Kind+":panic")
				case firedNow && !a.failed() && !fired:
					// success although a store call failed: only acceptable when the failed call was immaterial,
					// i.e. the result and the store are exactly what they are when nothing fails
					if a.coq() != cleanObs[i] {
						c.fail(fmt.Sprintf("[%s] store call %d (%s) failed during step %d (%s): the operation reported success with a result that differs from the failure-free one: %s", kindName, fault, ps.traceAt(fault), i, o, a), o.Kind+":silent-wrong-result")
					} else if d := snapDiffExact(cleanSnap[i], storeSnapshot(ps)); d != "" {
						c.fail(fmt.Sprintf("[%s] store call %d (%s) failed during step %d (%s): the operation reported success but the store did not take the change: %s", kindName, fault, ps.traceAt(fault), i, o, d), o.Kind+":silent-loss")
					}
				}
				fired = fired || firedNow
				if a.Kind == "panic" {
					break
				}
			}
			// a fresh look-up shows exactly what the store holds
			ps.failAt = -1
			if c.Oracle == "" {
				view := Snapshot(fs, candidatePaths(nsNames, nsDepth))
				held := storeSnapshot(ps)
				if d := snapDiffStore(view, held); d != "" {
					c.fail(fmt.Sprintf("[%s] fault at store call %d: afterwards the file system's view differs from the store: %s", kindName, fault, d), "view-vs-store")
				}
			}
			w.CloseAll()
			c.Cells = []string{fmt.Sprintf("%s/fault-%v", kindName, fault >= 0)}
			fz := "None"
			if fault >= 0 {
				fz = "(Some " + cNat(fault) + ")"
			}
			c.Coq = cPair(fz, cPair(cList(opsC), cList(items)))
			emit(c)
		}
	}
}

// snapDiffStore compares what the FS shows with what the store holds (paths, modes, bytes).
func snapDiffStore(view, held []SnapEntry) string {
	hm := map[string]SnapEntry{}
	for _, e := range held {
		hm[e.Path] = e
	}
	vm := map[string]SnapEntry{}
	for _, e := range view {
		vm[e.Path] = e
		h, ok := hm[e.Path]
		if !ok {
			return fmt.Sprintf("%q is visible but not in the store", e.Path)
		}
		if h.Mode != e.Mode || !bytes.Equal(h.Bytes, e.Bytes) {
			return fmt.Sprintf("%q: view (%o,%v) store (%o,%v)", e.Path, e.Mode, e.Bytes, h.Mode, h.Bytes)
		}
	}
	for _, e := range held {
		if _, ok := vm[e.Path]; !ok && depthOf(e.Path) <= nsDepth {
			// only paths the walk/candidates can reach are comparable: an orphan is C03's concern, but it must at least be Stat-able
			return fmt.Sprintf("%q is in the store but not visible", e.Path)
		}
	}
	return ""
}
