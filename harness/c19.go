package main

import (
	"bytes"
	"fmt"
	"strings"
	"time"

	"github.com/hack-pad/hackpadfs/keyvalue/blob"
)

func init() { commands["C19"] = runC19 }

// newBlobImpl makes the implementation blob of a "new" op (the i-th blob of the history).  Natively the byte-slice
// blob; the js/wasm build (c19_wasm.go) replaces it by the typed-array blob of indexeddb/idbblob.
// c19After: the io-adapter stage (c19_adapters.go; not part of the js/wasm build)
var c19After func(r *Rng, firstID, n int)

var newBlobImpl = func(d []byte, i int) blob.Blob { return blob.NewBytes(d) }

type bOp struct {
	kind   string // new view slice set grow trunc len bytes
	data   []byte
	b, src int
	x, y   int64
}

func (o bOp) coq() string {
	switch o.kind {
	case "new":
		return "BNew " + cBytes(o.data)
	case "view":
		return fmt.Sprintf("BView %s %s %s", cNat(o.b), cZ(o.x), cZ(o.y))
	case "slice":
		return fmt.Sprintf("BSlice %s %s %s", cNat(o.b), cZ(o.x), cZ(o.y))
	case "set":
		return fmt.Sprintf("BSet %s %s %s", cNat(o.b), cNat(o.src), cZ(o.x))
	case "grow":
		return fmt.Sprintf("BGrow %s %s", cNat(o.b), cZ(o.x))
	case "trunc":
		return fmt.Sprintf("BTrunc %s %s", cNat(o.b), cZ(o.x))
	case "len":
		return "BLen " + cNat(o.b)
	default:
		return "BBytes " + cNat(o.b)
	}
}

func (o bOp) text() string {
	switch o.kind {
	case "new":
		return fmt.Sprintf("new %v", o.data)
	case "view", "slice":
		return fmt.Sprintf("%s b%d %d %d", o.kind, o.b, o.x, o.y)
	case "set":
		return fmt.Sprintf("set dst=b%d src=b%d off=%d", o.b, o.src, o.x)
	case "grow", "trunc":
		return fmt.Sprintf("%s b%d %d", o.kind, o.b, o.x)
	default:
		return fmt.Sprintf("%s b%d", o.kind, o.b)
	}
}

// bObs is the observed result of one op.
type bObs struct {
	res  string // Coq bres term
	snap [][]byte
	stop bool
}

func snapCoq(s [][]byte) string {
	items := make([]string, len(s))
	for i, b := range s {
		items[i] = cBytes(b)
	}
	return cList(items)
}

// applyImpl runs one op on the real blob.Bytes values.
func applyImpl(bl *[]blob.Blob, o bOp) (res string, failed bool, ret int64, data []byte) {
	get := func(i int) blob.Blob { return (*bl)[i] }
	switch o.kind {
	case "new":
		d := make([]byte, len(o.data))
		copy(d, o.data)
		*bl = append(*bl, newBlobImpl(d, len(*bl)))
		return "ROk " + cZ(int64(len(*bl)-1)), false, int64(len(*bl) - 1), nil
	case "view":
		v, err := blob.View(get(o.b), o.x, o.y)
		if err != nil {
			return "RErr", true, 0, nil
		}
		*bl = append(*bl, v)
		return "ROk " + cZ(int64(len(*bl)-1)), false, 0, nil
	case "slice":
		v, err := blob.Slice(get(o.b), o.x, o.y)
		if err != nil {
			return "RErr", true, 0, nil
		}
		*bl = append(*bl, v)
		return "ROk " + cZ(int64(len(*bl)-1)), false, 0, nil
	case "set":
		n, err := blob.Set(get(o.b), get(o.src), o.x)
		if err != nil {
			return "RErr", true, 0, nil
		}
		return "ROk " + cZ(int64(n)), false, int64(n), nil
	case "grow":
		if err := blob.Grow(get(o.b), o.x); err != nil {
			return "RErr", true, 0, nil
		}
		return "ROk 0%Z", false, 0, nil
	case "trunc":
		if err := blob.Truncate(get(o.b), o.x); err != nil {
			return "RErr", true, 0, nil
		}
		return "ROk 0%Z", false, 0, nil
	case "len":
		n := get(o.b).Len()
		return "ROk " + cZ(int64(n)), false, int64(n), nil
	default:
		d := get(o.b).Bytes()
		return "RBytes " + cBytes(d), false, 0, d
	}
}

// refBlob is the []byte reference: a pointer to a slice header; views alias, slices copy.
type refBlob struct{ b []byte }

// applyRef mirrors the op on plain Go slices. inRange tells whether the arguments are in range.
func applyRef(rl *[]*refBlob, o bOp) (inRange bool, ret int64, data []byte) {
	get := func(i int) *refBlob { return (*rl)[i] }
	switch o.kind {
	case "new":
		d := make([]byte, len(o.data))
		copy(d, o.data)
		*rl = append(*rl, &refBlob{d})
		return true, int64(len(*rl) - 1), nil
	case "view", "slice":
		b := get(o.b)
		l := int64(len(b.b))
		if o.x < 0 || o.y < 0 || o.x > l || o.y > l || o.x > o.y {
			return false, 0, nil
		}
		if o.kind == "view" {
			*rl = append(*rl, &refBlob{b.b[o.x:o.y]})
		} else {
			d := make([]byte, o.y-o.x)
			copy(d, b.b[o.x:o.y])
			*rl = append(*rl, &refBlob{d})
		}
		return true, 0, nil
	case "set":
		d, s := get(o.b), get(o.src)
		if o.x < 0 || o.x > int64(len(d.b)) {
			return false, 0, nil
		}
		tmp := make([]byte, len(s.b))
		copy(tmp, s.b)
		n := copy(d.b[o.x:], tmp)
		return true, int64(n), nil
	case "grow":
		b := get(o.b)
		if o.x < 0 {
			return false, 0, nil
		}
		b.b = append(b.b, make([]byte, o.x)...)
		return true, 0, nil
	case "trunc":
		b := get(o.b)
		if o.x < 0 {
			return false, 0, nil
		}
		if int64(len(b.b)) >= o.x {
			b.b = b.b[:o.x]
		}
		return true, 0, nil
	case "len":
		return true, int64(len(get(o.b).b)), nil
	default:
		d := make([]byte, len(get(o.b).b))
		copy(d, get(o.b).b)
		return true, 0, d
	}
}

func genC19(r *Rng) []bOp {
	var ops []bOp
	nblobs := 0
	lens := []int{} // approximate lengths (shadow), used only to aim arguments
	mk := func() {
		var l int
		switch r.Pick(5, 2, 1) {
		case 0:
			l = r.Range(0, 6)
		case 1:
			l = r.Range(7, 16)
		default:
			l = r.Range(17, 64)
		}
		d := make([]byte, l)
		base := byte(r.Range(1, 200))
		for i := range d {
			d[i] = base + byte(i)
		}
		ops = append(ops, bOp{kind: "new", data: d})
		nblobs++
		lens = append(lens, l)
	}
	mk()
	n := r.Range(3, 12)
	if r.Intn(5) == 0 {
		// sibling family: two views of equal length over the two halves of one blob (they share its mutex), one written over the other
		k := r.Range(1, 6)
		d := make([]byte, 2*k+r.Intn(2))
		for i := range d {
			d[i] = byte(10 + i)
		}
		ops[0] = bOp{kind: "new", data: d}
		lens[0] = len(d)
		ops = append(ops, bOp{kind: "view", b: 0, x: 0, y: int64(k)}, bOp{kind: "view", b: 0, x: int64(k), y: int64(2 * k)})
		nblobs += 2
		lens = append(lens, k, k)
		if r.Intn(2) == 0 {
			ops = append(ops, bOp{kind: "set", b: 1, src: 2, x: 0})
		} else {
			ops = append(ops, bOp{kind: "set", b: 2, src: 1, x: 0})
		}
		n = len(ops) + r.Range(1, 5)
	}
	arg := func(l int) int64 { // -2 .. l+2, biased to the boundaries
		switch r.Pick(5, 2, 2, 1) {
		case 0:
			return int64(r.Range(0, l))
		case 1:
			return int64(l)
		case 2:
			return 0
		default:
			return int64(r.Range(-2, l+2))
		}
	}
	for len(ops) < n {
		b := r.Intn(nblobs)
		l := lens[b]
		switch r.Pick(1, 4, 3, 5, 2, 2, 1, 1) {
		case 0:
			mk()
		case 1:
			x, y := arg(l), arg(l)
			if x > y && r.Intn(4) != 0 {
				x, y = y, x
			}
			ops = append(ops, bOp{kind: "view", b: b, x: x, y: y})
			if x >= 0 && y >= x && y <= int64(l) {
				nblobs++
				lens = append(lens, int(y-x))
			}
		case 2:
			x, y := arg(l), arg(l)
			if x > y && r.Intn(4) != 0 {
				x, y = y, x
			}
			ops = append(ops, bOp{kind: "slice", b: b, x: x, y: y})
			if x >= 0 && y >= x && y <= int64(l) {
				nblobs++
				lens = append(lens, int(y-x))
			}
		case 3:
			src := r.Intn(nblobs)
			x := arg(l)
			if r.Intn(3) == 0 {
				// aim at another blob of the same (shadow) length, written at offset 0
				for t := 0; t < nblobs; t++ {
					c := (src + t) % nblobs
					if c != b && lens[c] == l {
						src, x = c, 0
						break
					}
				}
			}
			ops = append(ops, bOp{kind: "set", b: b, src: src, x: x})
		case 4:
			x := int64(r.Range(-1, 5))
			ops = append(ops, bOp{kind: "grow", b: b, x: x})
			if x > 0 {
				lens[b] += int(x)
			}
		case 5:
			x := arg(l)
			ops = append(ops, bOp{kind: "trunc", b: b, x: x})
			if x >= 0 && x <= int64(l) {
				lens[b] = int(x)
			}
		case 6:
			ops = append(ops, bOp{kind: "len", b: b})
		default:
			ops = append(ops, bOp{kind: "bytes", b: b})
		}
	}
	return ops
}

// execC19 runs a history on the implementation with a watchdog; returns observations and the
// first violation of the property found by the []byte reference.
func execC19(ops []bOp) (obs []bObs, text []string, oracle, sig string, cells []string) {
	type stepOut struct {
		res    string
		failed bool
		ret    int64
		data   []byte
		snap   [][]byte
		pan    bool
	}
	var bl []blob.Blob
	var rl []*refBlob
	cellSet := map[string]bool{}
	for i, o := range ops {
		// skip ops naming blobs that do not exist on both sides (failed creation earlier)
		if (o.kind != "new" && o.b >= len(bl)) || (o.kind == "set" && o.src >= len(bl)) {
			// make it a no-op that both sides agree on
			ops[i] = bOp{kind: "len", b: 0}
			o = ops[i]
		}
		ch := make(chan stepOut, 1)
		go func() {
			var so stepOut
			defer func() {
				if e := recover(); e != nil {
					so.pan = true
					ch <- so
				}
			}()
			so.res, so.failed, so.ret, so.data = applyImpl(&bl, o)
			for _, b := range bl {
				so.snap = append(so.snap, b.Bytes())
			}
			ch <- so
		}()
		var so stepOut
		select {
		case so = <-ch:
		case <-time.After(2 * time.Second):
			obs = append(obs, bObs{res: "RDeadlock", stop: true})
			text = append(text, o.text()+" -> DEADLOCK")
			if oracle == "" {
				oracle = fmt.Sprintf("op %d (%s) did not return (deadlock)", i, o.text())
				sig = o.kind + ":deadlock"
			}
			return
		}
		if so.pan {
			obs = append(obs, bObs{res: "RPanic", stop: true})
			text = append(text, o.text()+" -> PANIC")
			if oracle == "" {
				oracle = fmt.Sprintf("op %d (%s) panicked", i, o.text())
				sig = o.kind + ":panic"
			}
			return
		}
		obs = append(obs, bObs{res: so.res, snap: so.snap})
		text = append(text, o.text()+" -> "+so.res)
		// reference
		before := make([][]byte, len(rl))
		for j, b := range rl {
			before[j] = append([]byte(nil), b.b...)
		}
		inRange, ret, data := applyRef(&rl, o)
		cls := "ok"
		if so.failed {
			cls = "err"
		}
		rng := "in"
		if !inRange {
			rng = "oob"
		}
		cellSet[o.kind+"/"+rng+"/"+cls] = true
		if oracle != "" {
			continue
		}
		fail := func(f string, a ...interface{}) {
			oracle = fmt.Sprintf("op %d (%s): ", i, o.text()) + fmt.Sprintf(f, a...)
			sig = o.kind + ":" + rng + ":" + strings.SplitN(f, " ", 2)[0]
		}
		if !inRange {
			if !so.failed {
				fail("accepted out-of-range arguments")
				// keep the two worlds aligned as well as possible
				continue
			}
			for j := range before {
				if j < len(so.snap) && !bytes.Equal(before[j], so.snap[j]) {
					fail("modified blob %d although it failed", j)
				}
			}
			continue
		}
		quirk := o.kind == "set" && so.failed && len(before[o.b]) == 0 && o.x == 0
		if so.failed && !quirk {
			fail("rejected in-range arguments")
			continue
		}
		if !so.failed {
			if (o.kind == "set" || o.kind == "len") && ret != so.ret {
				fail("returned %d, reference %d", so.ret, ret)
			}
			if o.kind == "bytes" && !bytes.Equal(data, so.data) {
				fail("bytes %v, reference %v", so.data, data)
			}
		}
		if len(so.snap) != len(rl) {
			fail("count of blobs differs")
			continue
		}
		for j, b := range rl {
			if !bytes.Equal(b.b, so.snap[j]) {
				fail("blob %d holds %v, reference %v", j, so.snap[j], b.b)
				break
			}
		}
	}
	for c := range cellSet {
		cells = append(cells, c)
	}
	return
}

func runC19(r *Rng, n int, replay string) {
	for id := 0; id < n; id++ {
		ops := genC19(r)
		obs, text, oracle, sig, cells := execC19(ops)
		opsC := make([]string, 0, len(ops))
		for _, o := range ops {
			opsC = append(opsC, o.coq())
		}
		obsC := make([]string, 0, len(obs))
		for _, o := range obs {
			obsC = append(obsC, cPair(o.res, snapCoq(o.snap)))
		}
		emit(&Case{ID: id, Text: text, Coq: cPair(cList(opsC), cList(obsC)), Oracle: oracle, Sig: sig, Cells: cells})
	}
	if c19After != nil {
		c19After(r, n, n/10+20)
	}
}
