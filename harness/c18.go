package main

import (
	"context"
	"errors"
	"fmt"
	"os"
	"strings"
	"time"

	"github.com/hack-pad/hackpadfs"
	"github.com/hack-pad/hackpadfs/keyvalue"
	"github.com/hack-pad/hackpadfs/keyvalue/blob"
	"github.com/hack-pad/hackpadfs/mem"
)

func init() { commands["C18"] = runC18 }

// tagRec is a FileRecord carrying a small value id.
type tagRec struct{ v int }

func (t tagRec) Data() (blob.Blob, error)        { return blob.NewBytes([]byte{byte(t.v)}), nil }
func (t tagRec) ReadDirNames() ([]string, error) { return nil, hackpadfs.ErrNotDir }
func (t tagRec) Size() int64                     { return 1 }
func (t tagRec) Mode() hackpadfs.FileMode        { return 0o600 }
func (t tagRec) ModTime() time.Time              { return time.Unix(int64(t.v), 0) }
func (t tagRec) Sys() interface{}                { return nil }

func recValue(r keyvalue.FileRecord) int {
	if r == nil {
		return -1
	}
	return int(r.ModTime().Unix())
}

type tCall struct {
	kind string // get set abort commit
	key  int
	val  int  // -1 = delete
	h    int  // 0 ok 1 fail 2 abort 3 abort+fail
	cc   bool // commit: the caller's context is already cancelled
}

var hbNames = []string{"HOk", "HFail", "HAbort", "HAbortFail"}

func (c tCall) coq() string {
	switch c.kind {
	case "get":
		return fmt.Sprintf("TGet %s %s", cN(uint64(c.key)), hbNames[c.h])
	case "set":
		v := "None"
		if c.val >= 0 {
			v = "(Some " + cN(uint64(c.val)) + ")"
		}
		return fmt.Sprintf("TSet %s %s %s", cN(uint64(c.key)), v, hbNames[c.h])
	case "abort":
		return "TAbort"
	}
	return "TCommit " + cBool(c.cc)
}

func (c tCall) String() string {
	switch c.kind {
	case "get":
		return fmt.Sprintf("get k%d [%s]", c.key, hbNames[c.h])
	case "set":
		return fmt.Sprintf("set k%d=%d [%s]", c.key, c.val, hbNames[c.h])
	case "commit":
		if c.cc {
			return "commit(cancelled ctx)"
		}
	}
	return c.kind
}

var errHandler = errors.New("handler error")

func keyName(k int) string { return fmt.Sprintf("k%d", k) }

type tRes struct {
	id  int
	val int
	err string // RNone RNotExist RCanceled RHandler
}

func resErr(err error) string {
	switch {
	case err == nil:
		return "RNone"
	case errors.Is(err, hackpadfs.ErrNotExist):
		return "RNotExist"
	case errors.Is(err, context.Canceled):
		return "RCanceled"
	case errors.Is(err, errHandler):
		return "RHandler"
	}
	return "ROther"
}

func resCoq(rs []tRes) string {
	items := make([]string, len(rs))
	for i, r := range rs {
		v := "None"
		if r.val >= 0 {
			v = "(Some " + cN(uint64(r.val)) + ")"
		}
		items[i] = fmt.Sprintf("(mkRes %s %s %s)", cNat(r.id), v, r.err)
	}
	return cList(items)
}

func genTxn(r *Rng) []tCall {
	n := r.Range(1, 8)
	var cs []tCall
	for i := 0; i < n; i++ {
		h := r.Pick(12, 2, 2, 1)
		switch r.Pick(5, 6, 1, 1) {
		case 0:
			cs = append(cs, tCall{kind: "get", key: r.Intn(3), h: h})
		case 1:
			v := r.Range(1, 9)
			if r.Intn(5) == 0 {
				v = -1
			}
			cs = append(cs, tCall{kind: "set", key: r.Intn(3), val: v, h: h})
		case 2:
			cs = append(cs, tCall{kind: "abort"})
		default:
			cs = append(cs, tCall{kind: "commit", cc: r.Intn(3) == 0})
		}
	}
	// a transaction is always ended: by Abort, by Commit -- or, one time in five, only by a Commit whose
	// context is already cancelled (the mem transaction ends and releases the store all the same; the
	// serial fallback refuses and stays open, it holds nothing)
	if r.Intn(4) == 0 {
		cs = append(cs, tCall{kind: "abort"})
	}
	cs = append(cs, tCall{kind: "commit", cc: r.Intn(5) == 0})
	return cs
}

// readAll reads the three keys in a fresh transaction (also the "store is still usable" probe).
func readAll(st keyvalue.Store) (vals [3]int, ok bool) {
	done := make(chan struct{})
	go func() {
		defer close(done)
		defer func() { _ = recover() }()
		txn, err := keyvalue.TransactionOrSerial(st, keyvalue.TransactionOptions{Mode: keyvalue.TransactionReadOnly})
		if err != nil {
			return
		}
		for k := 0; k < 3; k++ {
			txn.Get(keyName(k))
		}
		rs, err := txn.Commit(context.Background())
		if err != nil || len(rs) != 3 {
			return
		}
		for k := 0; k < 3; k++ {
			vals[k] = -1
			if rs[k].Err == nil {
				vals[k] = recValue(rs[k].Record)
			}
		}
		ok = true
	}()
	select {
	case <-done:
	case <-time.After(3 * time.Second):
		return vals, false
	}
	return vals, ok
}

func runC18(r *Rng, n int, replay string) {
	hangs := 0
	for id := 0; id < n; id++ {
		which := []string{"MemTxn", "SerialTxn"}[id%2]
		var st keyvalue.Store
		if which == "MemTxn" {
			st = mem.NewStoreForVerif()
		} else {
			st = newPlainStore()
		}
		// committed earlier: a first transaction puts some values
		init := map[int]int{}
		{
			txn, _ := keyvalue.TransactionOrSerial(st, keyvalue.TransactionOptions{Mode: keyvalue.TransactionReadWrite})
			for k := 0; k < 3; k++ {
				if r.Intn(2) == 0 {
					v := r.Range(1, 9)
					init[k] = v
					txn.Set(keyName(k), tagRec{v}, nil)
				}
			}
			_, _ = txn.Commit(context.Background())
		}
		calls := genTxn(r)
		c := &Case{ID: id, Kind: which}
		var text []string
		for _, cl := range calls {
			text = append(text, cl.String())
		}
		fmt.Fprintf(os.Stderr, "C18 case %d [%s] init=%v: %s\n", id, which, init, strings.Join(text, "; "))
		// reference: a plain map
		ref := map[int]int{}
		for k, v := range init {
			ref[k] = v
		}
		refAborted := false
		type obsT struct {
			kind string // id / results / commiterr / none
			id   int
			rs   []tRes
		}
		var obs []obsT
		var issued []int // ids returned by the calls, in call order
		var expect []tRes
		scriptDone := make(chan struct{})
		go func() {
			defer close(scriptDone)
			defer func() {
				if e := recover(); e != nil {
					c.fail(fmt.Sprintf("[%s] %s: panicked: %v", which, strings.Join(text, "; "), e), which+":panic")
				}
			}()
			txn, err := keyvalue.TransactionOrSerial(st, keyvalue.TransactionOptions{Mode: keyvalue.TransactionReadWrite})
			if err != nil {
				c.fail("cannot begin a transaction: "+err.Error(), which+":begin")
				return
			}
			handlerRuns := 0
			mkHandler := func(h int) keyvalue.OpHandler {
				return keyvalue.OpHandlerFunc(func(t keyvalue.Transaction, res keyvalue.OpResult) error {
					handlerRuns++
					if h == 2 || h == 3 {
						_ = t.Abort()
					}
					if h == 1 || h == 3 {
						return errHandler
					}
					return nil
				})
			}
			for ci, cl := range calls {
				runsBefore := handlerRuns
				switch cl.kind {
				case "get":
					var op keyvalue.OpID
					if cl.h == 0 && (ci+id)%2 == 0 {
						op = txn.Get(keyName(cl.key)) // the plain call is the handler call with a handler that does nothing
					} else {
						op = txn.GetHandler(keyName(cl.key), mkHandler(cl.h))
					}
					obs = append(obs, obsT{kind: "id", id: int(op)})
					issued = append(issued, int(op))
					if refAborted && handlerRuns != runsBefore {
						c.fail(fmt.Sprintf("[%s] %s: the handler of call %d (a Get issued after the transaction was aborted) was run", which, strings.Join(text, "; "), ci), which+":handler-after-abort")
					}
					e := tRes{id: len(expect), val: -1, err: "RNone"}
					if refAborted {
						e.err = "RCanceled"
					} else {
						if v, ok := ref[cl.key]; ok {
							e.val = v
						} else {
							e.err = "RNotExist"
						}
						if (cl.h == 1 || cl.h == 3) && e.err == "RNone" {
							e.err = "RHandler"
						}
						if cl.h == 2 || cl.h == 3 {
							refAborted = true
						}
					}
					expect = append(expect, e)
				case "set":
					var rec keyvalue.FileRecord
					if cl.val >= 0 {
						rec = tagRec{cl.val}
					}
					var op keyvalue.OpID
					if cl.h == 0 && (ci+id)%2 == 0 {
						op = txn.Set(keyName(cl.key), rec, nil)
					} else {
						op = txn.SetHandler(keyName(cl.key), rec, nil, mkHandler(cl.h))
					}
					obs = append(obs, obsT{kind: "id", id: int(op)})
					issued = append(issued, int(op))
					if refAborted && handlerRuns != runsBefore {
						c.fail(fmt.Sprintf("[%s] %s: the handler of call %d (a Set issued after the transaction was aborted) was run", which, strings.Join(text, "; "), ci), which+":handler-after-abort")
					}
					e := tRes{id: len(expect), val: -1, err: "RNone"}
					if refAborted {
						e.err = "RCanceled"
					} else {
						if cl.val >= 0 {
							ref[cl.key] = cl.val
						} else {
							delete(ref, cl.key)
						}
						if cl.h == 1 || cl.h == 3 {
							e.err = "RHandler"
						}
						if cl.h == 2 || cl.h == 3 {
							refAborted = true
						}
					}
					expect = append(expect, e)
				case "abort":
					_ = txn.Abort()
					refAborted = true
					obs = append(obs, obsT{kind: "none"})
				case "commit":
					ctx := context.Background()
					refused := false // the serial fallback checks the caller's context first and then does nothing
					if cl.cc {
						cctx, cancel := context.WithCancel(ctx)
						cancel()
						ctx = cctx
						refused = which == "SerialTxn"
					}
					rs, err := txn.Commit(ctx)
					if err != nil {
						obs = append(obs, obsT{kind: "commiterr"})
						if !refAborted && !refused {
							c.fail(fmt.Sprintf("[%s] %s: Commit of a live transaction failed: %v", which, strings.Join(text, "; "), err), which+":commit-error")
						}
					} else {
						var out []tRes
						for _, x := range rs {
							out = append(out, tRes{id: int(x.Op), val: func() int {
								if x.Err == nil && x.Record != nil {
									return recValue(x.Record)
								}
								return -1
							}(), err: resErr(x.Err)})
						}
						obs = append(obs, obsT{kind: "results", rs: out})
						// the property: one result per call, in call order, matching ids, right contents
						if len(out) != len(expect) {
							c.fail(fmt.Sprintf("[%s] %s: Commit returned %d results for %d calls", which, strings.Join(text, "; "), len(out), len(expect)), which+":result-count")
						} else {
							for i := range out {
								if out[i].id != issued[i] || out[i].id != i {
									c.fail(fmt.Sprintf("[%s] %s: result %d carries operation id %d (the call returned %d)", which, strings.Join(text, "; "), i, out[i].id, issued[i]), which+":result-id")
									break
								}
								if out[i].err != expect[i].err || (out[i].err == "RNone" && out[i].val != expect[i].val) {
									c.fail(fmt.Sprintf("[%s] %s: result %d is (%d,%s), expected (%d,%s)", which, strings.Join(text, "; "), i, out[i].val, out[i].err, expect[i].val, expect[i].err), which+":result-content")
									break
								}
							}
						}
					}
					if !refused {
						refAborted = true
					}
				}
			}
		}()
		select {
		case <-scriptDone:
		case <-time.After(5 * time.Second):
			// a call on the transaction never returned (a mutex left locked by an earlier call, say): the goroutine is abandoned
			c.fail(fmt.Sprintf("[%s] %s: a call did not return within 5 s (the transaction blocks its own later calls)", which, strings.Join(text, "; ")), which+":hang")
			c.Text = text
			emit(c)
			hangs++
			if hangs >= 3 {
				return // every such script costs 5 s: three failing inputs are enough
			}
			continue
		}
		vals, ok := readAll(st)
		if !ok {
			c.fail(fmt.Sprintf("[%s] %s: the store is not usable afterwards (a fresh transaction does not complete)", which, strings.Join(text, "; ")), which+":not-released")
		} else {
			for k := 0; k < 3; k++ {
				want := -1
				if v, ok := ref[k]; ok {
					want = v
				}
				if vals[k] != want {
					c.fail(fmt.Sprintf("[%s] %s: afterwards key k%d holds %d, expected %d", which, strings.Join(text, "; "), k, vals[k], want), which+":store-content")
				}
			}
		}
		c.Text = text
		c.Cells = []string{fmt.Sprintf("%s/len%d", which, len(calls))}
		// Coq term: (impl, initial store, calls, observations, final values, usable)
		var initC []string
		for k := 0; k < 3; k++ {
			if v, ok := init[k]; ok {
				initC = append(initC, cPair(cN(uint64(k)), cN(uint64(v))))
			}
		}
		var callsC, obsC []string
		for _, cl := range calls {
			callsC = append(callsC, cl.coq())
		}
		for _, o := range obs {
			switch o.kind {
			case "id":
				obsC = append(obsC, cPair("CNone", "(Some "+cNat(o.id)+")"))
			case "results":
				obsC = append(obsC, cPair("(CResults "+resCoq(o.rs)+")", "None"))
			case "commiterr":
				obsC = append(obsC, cPair("CErr", "None"))
			default:
				obsC = append(obsC, cPair("CNone", "None"))
			}
		}
		var finalC []string
		for k := 0; k < 3; k++ {
			if vals[k] >= 0 {
				finalC = append(finalC, "(Some "+cN(uint64(vals[k]))+")")
			} else {
				finalC = append(finalC, "None")
			}
		}
		if len(obs) == len(calls) {
			c.Coq = fmt.Sprintf("(%s, %s, %s, %s, %s, %s)", which, cList(initC), cList(callsC), cList(obsC), cList(finalC), cBool(ok))
		}
		emit(c)
	}
	runC18Isolation(n)
}

// runC18Isolation: while a transaction of the in-memory store is live, no other transaction -- read-only or
// read-write -- begins; one started meanwhile waits and then sees all of the first one's Sets, never a part.
func runC18Isolation(firstID int) {
	id := firstID
	for _, mode := range []keyvalue.TransactionMode{keyvalue.TransactionReadOnly, keyvalue.TransactionReadWrite} {
		for _, stale := range []string{"", "abort+commit", "commit+commit", "commit+abort", "abort+abort"} {
			for setsBefore := 1; setsBefore <= 2; setsBefore++ {
				modeName := map[keyvalue.TransactionMode]string{keyvalue.TransactionReadOnly: "read-only", keyvalue.TransactionReadWrite: "read-write"}[mode]
				c := &Case{ID: id, Kind: "MemTxn/isolation", Trivial: true}
				id++
				c.Cells = []string{"MemTxn/isolation/" + modeName + "/" + stale}
				st := mem.NewStoreForVerif()
				// an earlier transaction Z that has ended once already, and is ended a second time while A is open
				// ("however a transaction ends ... transactions never observe each other's partial effects")
				var z keyvalue.Transaction
				if stale != "" {
					var err error
					z, err = keyvalue.TransactionOrSerial(st, keyvalue.TransactionOptions{Mode: keyvalue.TransactionReadWrite})
					if err != nil {
						panic(err)
					}
					z.Get(keyName(2))
					if strings.HasPrefix(stale, "abort") {
						_ = z.Abort()
					} else {
						_, _ = z.Commit(context.Background())
					}
				}
				a, err := keyvalue.TransactionOrSerial(st, keyvalue.TransactionOptions{Mode: keyvalue.TransactionReadWrite})
				if err != nil {
					panic(err)
				}
				a.Set(keyName(0), tagRec{1}, nil)
				if setsBefore == 2 {
					a.Set(keyName(1), tagRec{2}, nil)
				}
				if z != nil {
					func() {
						defer func() { _ = recover() }()
						if strings.HasSuffix(stale, "commit") {
							_, _ = z.Commit(context.Background())
						} else {
							_ = z.Abort()
						}
					}()
				}
				type seenT struct {
					v0, v1 int
					ok     bool
				}
				done := make(chan seenT, 1)
				go func() {
					var out seenT
					defer func() { _ = recover(); done <- out }()
					b, err := keyvalue.TransactionOrSerial(st, keyvalue.TransactionOptions{Mode: mode})
					if err != nil {
						return
					}
					b.Get(keyName(0))
					b.Get(keyName(1))
					rs, err := b.Commit(context.Background())
					if err != nil || len(rs) != 2 {
						return
					}
					out.v0, out.v1, out.ok = -1, -1, true
					if rs[0].Err == nil {
						out.v0 = recValue(rs[0].Record)
					}
					if rs[1].Err == nil {
						out.v1 = recValue(rs[1].Record)
					}
				}()
				desc := fmt.Sprintf("[MemTxn] transaction A (read-write) has made %d of its 2 Sets and is still open; a %s transaction B is started and reads both keys", setsBefore, modeName)
				if stale != "" {
					desc = fmt.Sprintf("[MemTxn] transaction Z ended (%s) before A began and is ended again (%s) while A is open; ", strings.Split(stale, "+")[0], strings.Split(stale, "+")[1]) + desc[len("[MemTxn] "):]
				}
				c.Text = []string{desc}
				select {
				case got := <-done:
					c.fail(fmt.Sprintf("%s: B began and finished while A was live (B saw k0=%d k1=%d, ok=%v)", desc, got.v0, got.v1, got.ok), "MemTxn:isolation:"+modeName)
					if setsBefore == 1 {
						a.Set(keyName(1), tagRec{2}, nil)
					}
					_, _ = a.Commit(context.Background())
				case <-time.After(25 * time.Millisecond):
					if setsBefore == 1 {
						a.Set(keyName(1), tagRec{2}, nil)
					}
					_, _ = a.Commit(context.Background())
					select {
					case got := <-done:
						if !got.ok || got.v0 != 1 || got.v1 != 2 {
							c.fail(fmt.Sprintf("%s: after A committed, B saw k0=%d k1=%d (ok=%v), expected 1 and 2", desc, got.v0, got.v1, got.ok), "MemTxn:isolation-after:"+modeName)
						}
					case <-time.After(3 * time.Second):
						c.fail(desc+": B never began after A committed", "MemTxn:isolation-hang:"+modeName)
					}
				}
				emit(c)
			}
		}
	}
}
