package main

import (
	"bytes"
	"fmt"
	gofs "io/fs"
	"strings"

	"github.com/hack-pad/hackpadfs"
)

func init() {
	commands["C02"] = func(r *Rng, n int, replay string) { runH(r, n, false) }
	commands["C17"] = func(r *Rng, n int, replay string) { defer runC17Retaining(700000); runH(r, n, true) }
}

type hShadow struct {
	path   string
	flag   int
	isDir  bool
	closed bool
}

// genH generates a handle history: a few files with contents, 1..3 handles per file with random
// flags, then reads/writes/seeks/truncates; with mixNS also Remove/Rename of the paths and calls
// after Close (C17).
// genCoherence is a structured family inside genH: handle B first touches the file in a way that may
// leave something remembered on the handle (size, position, nothing), another handle A (or the FS) then
// changes the file's size, and B is observed again.  Every choice comes from r.
func genCoherence(r *Rng, mixNS bool) []Op {
	d0 := smallData(r)
	if len(d0) < 3 {
		d0 = []byte{11, 12, 13, 14, 15}
	}
	ops := []Op{{Kind: "writefile", P: "a", Data: d0, Perm: 0o644}}
	flagB := []int{0, fRDWR, fRDWR | fAPPEND, fWRONLY, fWRONLY | fAPPEND}[r.Intn(5)]
	ops = append(ops, Op{Kind: "open", P: "a", Flag: flagB, Perm: 0o644}) // handle 0 = B
	ops = append(ops, Op{Kind: "open", P: "a", Flag: fRDWR, Perm: 0o644}) // handle 1 = A
	const B, A = 0, 1
	// what B does before the change
	for i, k := 0, r.Range(0, 2); i < k; i++ {
		switch r.Pick(4, 2, 2, 1, 1) {
		case 0:
			ops = append(ops, Op{Kind: "h:seek", H: B, Off: int64(r.Range(-2, 0)), Wh: 2})
		case 1:
			ops = append(ops, Op{Kind: "h:stat", H: B})
		case 2:
			ops = append(ops, Op{Kind: "h:seek", H: B, Off: int64(r.Range(0, 3)), Wh: 0})
		case 3:
			ops = append(ops, Op{Kind: "h:read", H: B, N: r.Range(1, 3)})
		default:
			ops = append(ops, Op{Kind: "h:readat", H: B, N: 2, Off: 1})
		}
	}
	// the size change, through A or through the FS
	for i, k := 0, r.Range(1, 2); i < k; i++ {
		switch r.Pick(3, 2, 2, 2, 1) {
		case 0:
			ops = append(ops, Op{Kind: "h:seek", H: A, Off: 0, Wh: 2}, Op{Kind: "h:write", H: A, Data: smallData(r)})
		case 1:
			ops = append(ops, Op{Kind: "h:writeat", H: A, Data: smallData(r), Off: int64(len(d0) + r.Range(0, 6))})
		case 2:
			ops = append(ops, Op{Kind: "h:trunc", H: A, Off: int64(r.Range(0, len(d0)-1))})
		case 3:
			ops = append(ops, Op{Kind: "h:trunc", H: A, Off: int64(len(d0) + r.Range(1, 9))})
		default:
			if mixNS {
				ops = append(ops, Op{Kind: "writefile", P: "a", Data: smallData(r), Perm: 0o644})
			} else {
				ops = append(ops, Op{Kind: "h:trunc", H: A, Off: 0})
			}
		}
	}
	// what B sees afterwards
	for i, k := 0, r.Range(2, 5); i < k; i++ {
		switch r.Pick(4, 2, 3, 2, 2, 2, 1) {
		case 0:
			ops = append(ops, Op{Kind: "h:seek", H: B, Off: int64(r.Range(-2, 0)), Wh: 2})
		case 1:
			ops = append(ops, Op{Kind: "h:stat", H: B})
		case 2:
			ops = append(ops, Op{Kind: "h:read", H: B, N: r.Range(1, 30)})
		case 3:
			ops = append(ops, Op{Kind: "h:readat", H: B, N: r.Range(1, 30), Off: int64(r.Range(0, 4))})
		case 4:
			ops = append(ops, Op{Kind: "h:write", H: B, Data: smallData(r)})
		case 5:
			ops = append(ops, Op{Kind: "h:seek", H: B, Off: 0, Wh: 1})
		default:
			ops = append(ops, Op{Kind: "h:stat", H: A})
		}
	}
	ops = append(ops, Op{Kind: "h:seek", H: A, Off: 0, Wh: 0}, Op{Kind: "h:read", H: A, N: 64})
	return ops
}

func genH(r *Rng, mixNS bool) []Op {
	if r.Intn(4) == 0 {
		return genCoherence(r, mixNS)
	}
	var ops []Op
	files := []string{"a"}
	ops = append(ops, Op{Kind: "writefile", P: "a", Data: smallData(r), Perm: 0o644})
	if r.Intn(3) == 0 {
		ops = append(ops, Op{Kind: "writefile", P: "b", Data: smallData(r), Perm: 0o600})
		files = append(files, "b")
	}
	haveDir := false
	if r.Intn(3) == 0 {
		ops = append(ops, Op{Kind: "mkdir", P: "ab", Perm: 0o755})
		ops = append(ops, Op{Kind: "writefile", P: "ab/a", Data: smallData(r), Perm: 0o644})
		haveDir = true
	}
	var hs []hShadow
	createdC := false
	size := 8 // rough size used only to aim offsets
	open := func() {
		p := files[r.Intn(len(files))]
		flag := 0
		switch r.Pick(3, 2, 4) {
		case 1:
			flag = fWRONLY
		case 2:
			flag = fRDWR
		}
		if r.Intn(4) == 0 {
			flag |= fAPPEND
		}
		if r.Intn(6) == 0 {
			flag |= fTRUNC
		}
		if r.Intn(6) == 0 {
			flag |= fCREATE
		}
		if !createdC && r.Intn(5) == 0 {
			// a handle that CREATES its file (the name does not exist yet), half of the time in append mode
			p, createdC = "c", true
			flag |= fCREATE
			if flag&(fWRONLY|fRDWR) == 0 {
				flag |= fRDWR
			}
			if r.Intn(2) == 0 {
				flag |= fAPPEND
			}
			flag &^= fTRUNC
			files = append(files, "c")
		}
		isDir := false
		if r.Intn(10) == 0 {
			p, flag, isDir = ".", 0, true
			if haveDir && r.Intn(2) == 0 { // only a directory that exists: a failed open would shift the handle numbering
				p = "ab"
			}
		}
		ops = append(ops, Op{Kind: "open", P: p, Flag: flag, Perm: 0o644})
		hs = append(hs, hShadow{p, flag, isDir, false})
	}
	open()
	n := r.Range(8, 26)
	off := func() int64 {
		switch r.Pick(6, 2, 1, 1) {
		case 0:
			return int64(r.Range(0, size+2))
		case 1:
			return int64(size)
		case 2:
			return int64(r.Range(-2, -1))
		}
		return int64(r.Range(size, size+40))
	}
	for len(ops) < n {
		if len(hs) < 3 && r.Intn(6) == 0 {
			open()
			continue
		}
		h := r.Intn(len(hs))
		if hs[h].isDir {
			// directory handles: byte reads, paged listings, stat, close
			switch r.Pick(3, 2, 5, 2, 1) {
			case 0:
				ops = append(ops, Op{Kind: "h:read", H: h, N: r.Range(1, 4)})
			case 1:
				ops = append(ops, Op{Kind: "h:readat", H: h, N: r.Range(1, 4), Off: int64(r.Range(0, 3))})
			case 2:
				// whole listings only: which entries a partial page holds depends on the store's order (paging is C16's)
				ops = append(ops, Op{Kind: "h:readdir", H: h, N: []int{-1, 0, 50}[r.Intn(3)]})
			case 3:
				ops = append(ops, Op{Kind: "h:stat", H: h})
			default:
				ops = append(ops, Op{Kind: "h:close", H: h})
				hs[h].closed = true
			}
			continue
		}
		switch r.Pick(8, 5, 8, 5, 6, 4, 3, 2, 1, 1, 2, 3) {
		case 0:
			ops = append(ops, Op{Kind: "h:read", H: h, N: r.Pick(1, 3, 3, 2, 1) * r.Range(0, 4)})
		case 1:
			ops = append(ops, Op{Kind: "h:readat", H: h, N: r.Range(0, 12), Off: off()})
		case 2:
			d := smallData(r)
			ops = append(ops, Op{Kind: "h:write", H: h, Data: d})
			size += len(d) / 2
		case 3:
			ops = append(ops, Op{Kind: "h:writeat", H: h, Data: smallData(r), Off: off()})
		case 4:
			wh := r.Pick(4, 3, 3, 1)
			o := off()
			if wh == 1 || wh == 2 {
				o = int64(r.Range(-4, 4))
			}
			if wh == 3 {
				wh = []int{5, 9, -1, 77}[r.Intn(4)] // invalid origins (3 and 4 are SEEK_DATA/SEEK_HOLE on Linux)
			}
			ops = append(ops, Op{Kind: "h:seek", H: h, Off: o, Wh: wh})
		case 5:
			ops = append(ops, Op{Kind: "h:trunc", H: h, Off: off()})
		case 6:
			ops = append(ops, Op{Kind: "h:stat", H: h})
		case 7:
			ops = append(ops, Op{Kind: "h:seek", H: h, Off: 0, Wh: 1}) // position probe
		case 8:
			ops = append(ops, Op{Kind: "h:readdir", H: h, N: r.Range(-1, 3)})
		case 9:
			ops = append(ops, Op{Kind: "h:sync", H: h})
		case 10:
			ops = append(ops, Op{Kind: "h:close", H: h})
			hs[h].closed = true
		default:
			if !mixNS {
				ops = append(ops, Op{Kind: "h:seek", H: h, Off: 0, Wh: 1})
				continue
			}
			p := files[r.Intn(len(files))]
			switch r.Intn(4) {
			case 0:
				ops = append(ops, Op{Kind: "remove", P: p})
			case 1:
				ops = append(ops, Op{Kind: "rename", P: p, Q: nsNames[r.Intn(len(nsNames))]})
			case 2:
				if hs[h].closed {
					// every method is exercised after Close, Chmod included
					ops = append(ops, Op{Kind: "h:chmod", H: h, Perm: pickPerm(r)})
				} else {
					ops = append(ops, Op{Kind: "h:close", H: h})
					hs[h].closed = true
				}
			default:
				ops = append(ops, Op{Kind: "stat", P: p})
			}
		}
	}
	return ops
}

// runH runs handle histories on mem.FS and on os.FS (os.File is the reference).
func runH(r *Rng, n int, mixNS bool) {
	cands := candidatePaths(nsNames, 2)
	for id := 0; id < n; id++ {
		ops := genH(r, mixNS)
		implFS := newMem()
		refFS, refDone := newOSWorld()
		impl := &World{FS: implFS}
		ref := &World{FS: refFS}
		c := &Case{ID: id}
		cells := map[string]bool{}
		var items, opsC []string
		diverged := false
		closed := map[int]bool{}
		stale := map[int]bool{}
		listed := map[int]bool{}
		hclass := map[int]string{}
		for i, o := range ops {
			if len(o.Kind) > 2 && o.Kind[:2] == "h:" && o.H >= len(impl.Handles) {
				continue // the handle was never opened (open failed): drop the op
			}
			if len(o.Kind) > 2 && o.Kind[:2] == "h:" && hclass[o.H] == "dir" {
				switch o.Kind {
				case "h:read", "h:readat", "h:readdir", "h:stat", "h:close":
				default:
					continue // seeking or writing a directory handle is outside C02/C17 (the generator aims these at files)
				}
			}
			a := impl.Apply(o)
			as := Snapshot(implFS, cands)
			opsC = append(opsC, o.coq())
			items = append(items, cPair(a.coq(), snapCoqFS(as)))
			c.Text = append(c.Text, fmt.Sprintf("%s -> %s", o, a))
			cells[o.Kind+"/"+outcome(a)] = true
			if a.Kind == "panic" {
				c.fail(fmt.Sprintf("step %d (%s): implementation panicked: %s", i, o, a.Err.Path), o.Kind+":panic")
				break
			}
			if diverged {
				continue
			}
			b := ref.Apply(o)
			bs := Snapshot(refFS, cands)
			if o.Kind == "open" && a.Kind == "handle" {
				cl := handleClass(ops, len(impl.Handles)-1)
				if info, err := hackpadfs.Stat(implFS, o.P); err == nil && info.IsDir() {
					cl = "dir"
				}
				hclass[len(impl.Handles)-1] = cl
			}
			if o.Kind == "open" && a.Kind != b.Kind {
				c.fail(fmt.Sprintf("step %d (%s): open success differs from os [impl: %s | os: %s]", i, o, a, b),
					fmt.Sprintf("open:success:%s-vs-%s", outcome(a), outcome(b)))
				diverged = true
				continue
			}
			fail := func(what, sig string) {
				c.fail(fmt.Sprintf("step %d (%s): %s [impl: %s | os: %s]", i, o, what, a, b), sig)
			}
			hflag := ""
			isH := len(o.Kind) > 2 && o.Kind[:2] == "h:"
			if isH {
				hflag = hclass[o.H]
				if stale[o.H] {
					hflag += "+stale" // the namespace was changed by path after this handle was opened
				}
			} else if !a.failed() {
				switch o.Kind {
				case "remove", "rename", "removeall", "chmod", "chtimes", "writefile", "mkdir":
					for h := range impl.Handles {
						stale[h] = true
					}
				}
			}
			zeroLen := (o.Kind == "h:read" || o.Kind == "h:readat") && o.N == 0 || (o.Kind == "h:write" || o.Kind == "h:writeat") && len(o.Data) == 0
			switch {
			case o.Kind == "h:sync":
				// Sync is not part of the compared behaviour while the handle is open (unsupported = ErrNotImplemented);
				// after Close it has to fail like every other call
				if isH && closed[o.H] && !a.failed() {
					fail("Sync after Close succeeded", "h:sync:after-close")
				}
			case isH && closed[o.H] && !a.failed():
				fail("call after Close succeeded", o.Kind+":after-close:ok")
			case o.Kind == "h:readdir" && stale[o.H]:
				// directories mutated after the handle was opened are outside the comparison
			case zeroLen:
				// zero-length transfers: os.File answers them without looking at the handle at all
			case a.failed() != b.failed():
				fail("success differs from os.File", fmt.Sprintf("%s:%s:success:%s-vs-%s", o.Kind, hflag, outcome(a), outcome(b)))
			case a.failed() && b.Err != nil && b.Err.Cls == "ECLOSED" && a.Err.Cls != "ECLOSED":
				fail("os reports ErrClosed, implementation does not", o.Kind+":closed-class")
			case !a.failed():
				switch a.Kind {
				case "hbytes":
					if !bytes.Equal(a.Bytes, b.Bytes) {
						fail("bytes read differ", o.Kind+":"+hflag+":bytes")
					} else if a.Err != nil && a.Err.Cls == "EEOF" && (b.Err == nil || b.Err.Cls != "EEOF") {
						// EOF together with the last bytes is allowed, but only at the end of the file
						if !atEOF(ref, o, len(a.Bytes)) {
							fail("io.EOF before all bytes were delivered", o.Kind+":"+hflag+":early-eof")
						}
					} else if a.Err == nil && o.N > 0 && len(a.Bytes) < o.N && o.Kind == "h:readat" {
						fail("short ReadAt without an error", o.Kind+":"+hflag+":short")
					} else if a.Err == nil && o.N > 0 && len(a.Bytes) == 0 {
						fail("empty read without an error", o.Kind+":"+hflag+":empty")
					}
				case "hn":
					if a.N != b.N {
						fail("returned count/offset differs", o.Kind+":"+hflag+":n")
					}
				case "hinfo":
					ad, _ := kindPerm(a.Mode)
					bd, _ := kindPerm(b.Mode)
					if ad != bd || (!ad && a.Size != b.Size) {
						fail("handle Stat differs", o.Kind+":"+hflag+":info")
					}
				case "hentries":
					// order of pages is unspecified for os; compare page length and EOF
					if (o.N <= 0 && listed[o.H]) || stale[o.H] {
						// a non-positive count is only specified for a fresh handle; mutated directories are excluded
					} else if len(a.Entries) != len(b.Entries) || (a.Err == nil) != (b.Err == nil) {
						fail("directory page differs", o.Kind+":"+hflag+":page")
					}
				default:
					if d := dataDiffOS(o, a, b); d != "" {
						fail("returned data differs: "+d, o.Kind+":data")
					}
				}
			}
			if o.Kind == "h:close" {
				closed[o.H] = true
			}
			if o.Kind == "h:readdir" {
				listed[o.H] = true
			}
			if d := snapDiffOS(as, bs); d != "" {
				fail("file contents / tree differ after the step: "+d, o.Kind+":"+hflag+":tree-"+diffClass(d)+":"+outcome(a))
				diverged = true
			}
		}
		impl.CloseAll()
		ref.CloseAll()
		refDone()
		for k := range cells {
			c.Cells = append(c.Cells, k)
		}
		c.Coq = cPair(cList(opsC), cList(items))
		emit(c)
	}
	if mixNS {
		runClosedSweep(n)
	}
}

// runClosedSweep (C17): after Close every method of a handle fails and does not panic, on EVERY file system and
// composition, for file handles of each access mode and for directory handles; and it matches ErrClosed wherever the
// same call on a closed os.File does.
func runClosedSweep(firstID int) {
	methods := []Op{{Kind: "h:read", N: 4}, {Kind: "h:read", N: 0}, {Kind: "h:readat", N: 4, Off: 1}, {Kind: "h:write", Data: []byte{1, 2}}, {Kind: "h:writeat", Data: []byte{3}, Off: 1},
		{Kind: "h:seek", Off: 0, Wh: 1}, {Kind: "h:seek", Off: 1, Wh: 0}, {Kind: "h:stat"}, {Kind: "h:readdir", N: -1}, {Kind: "h:readdir", N: 1},
		{Kind: "h:trunc", Off: 1}, {Kind: "h:trunc", Off: -1}, {Kind: "h:chmod", Perm: 0o600}, {Kind: "h:sync"}, {Kind: "h:close"}}
	opens := []Op{{Kind: "open", P: "f", Flag: 0}, {Kind: "open", P: "f", Flag: fRDWR}, {Kind: "open", P: "f", Flag: fWRONLY | fAPPEND}, {Kind: "open", P: "d", Flag: 0}, {Kind: "open", P: ".", Flag: 0}, {Kind: "open", P: "d/f", Flag: 0}}
	id := firstID
	for _, l := range c04Layers() {
		for _, op := range opens {
			for _, m := range methods {
				fs, _, done := l.build()
				refFS, refDone := newOSWorld()
				prepTree(refFS)
				impl, ref := &World{FS: fs}, &World{FS: refFS}
				a0, b0 := impl.Apply(op), ref.Apply(op)
				c := &Case{ID: id, Kind: "closed/" + l.name, Trivial: true}
				id++
				c.Cells = []string{"closed/" + l.name + "/" + m.Kind}
				if a0.Kind != "handle" || b0.Kind != "handle" {
					// a read-only layer refuses the writable open: nothing to close
					impl.CloseAll()
					ref.CloseAll()
					done()
					refDone()
					continue
				}
				impl.Apply(Op{Kind: "h:close", H: 0})
				ref.Apply(Op{Kind: "h:close", H: 0})
				mm := m
				mm.H = 0
				a, b := impl.Apply(mm), ref.Apply(mm)
				c.Text = []string{fmt.Sprintf("[%s] %s; close; %s -> %s   | os.File: %s", l.name, op, mm, a, b)}
				switch {
				case a.Kind == "panic":
					c.fail(c.Text[0]+": panicked", "closed:"+l.name+":"+m.Kind+":panic")
				case !a.failed():
					c.fail(c.Text[0]+": a call on a closed handle succeeded", "closed:"+l.name+":"+m.Kind+":ok")
				case b.Err != nil && b.Err.Cls == "ECLOSED" && a.Err != nil && a.Err.Cls != "ECLOSED":
					c.fail(c.Text[0]+": os.File reports ErrClosed, this handle does not", "closed:"+l.name+":"+m.Kind+":class")
				}
				impl.CloseAll()
				ref.CloseAll()
				done()
				refDone()
				emit(c)
			}
		}
	}
}

// handleClass describes how handle h was opened (for signatures): access mode, append, dir.
func handleClass(ops []Op, h int) string {
	k := 0
	for _, o := range ops {
		if o.Kind == "open" {
			if k == h {
				s := "ro"
				if o.Flag&fWRONLY != 0 {
					s = "wo"
				} else if o.Flag&fRDWR != 0 {
					s = "rw"
				}
				if o.Flag&fAPPEND != 0 {
					s += "+append"
				}
				if o.P == "." || o.P == "ab" {
					s = "dir"
				}
				return s
			}
			k++
		}
	}
	return "?"
}

// atEOF asks the reference whether the position after the read is the end of the file.
func atEOF(ref *World, o Op, n int) bool {
	if o.H >= len(ref.Handles) {
		return true
	}
	f := ref.Handles[o.H]
	var pos int64
	if o.Kind == "h:readat" {
		pos = o.Off + int64(n)
	} else {
		p, err := hackpadfs.SeekFile(f, 0, 1)
		if err != nil {
			return true
		}
		pos = p
	}
	info, err := f.Stat()
	if err != nil {
		return true
	}
	_ = gofs.ModeDir
	return pos >= info.Size()
}

// diffClass names the kind of tree difference (for signatures).
func diffClass(d string) string {
	switch {
	case strings.Contains(d, "only in the implementation"):
		return "only-impl"
	case strings.Contains(d, "only in os"):
		return "only-os"
	case strings.Contains(d, "permission bits"):
		return "perm"
	case strings.Contains(d, "bytes"):
		return "bytes"
	case strings.Contains(d, "kind"):
		return "kind"
	}
	return "mtime"
}
