package main

import (
	"fmt"
	"strings"
)

// Rng is splitmix64; every random choice of a run derives from one state.
type Rng struct{ s uint64 }

func NewRng(seed uint64) *Rng { return &Rng{seed*0x9E3779B97F4A7C15 + 0x1234567} }

func (r *Rng) Next() uint64 {
	r.s += 0x9E3779B97F4A7C15
	z := r.s
	z = (z ^ (z >> 30)) * 0xBF58476D1CE4E5B9
	z = (z ^ (z >> 27)) * 0x94D049BB133111EB
	return z ^ (z >> 31)
}

// Intn returns a value in [0,n).
func (r *Rng) Intn(n int) int {
	if n <= 0 {
		return 0
	}
	return int(r.Next() % uint64(n))
}

// Range returns a value in [lo,hi].
func (r *Rng) Range(lo, hi int) int { return lo + r.Intn(hi-lo+1) }

func (r *Rng) Bool() bool { return r.Next()&1 == 1 }

// Pick chooses an index according to weights.
func (r *Rng) Pick(weights ...int) int {
	total := 0
	for _, w := range weights {
		total += w
	}
	x := r.Intn(total)
	for i, w := range weights {
		if x < w {
			return i
		}
		x -= w
	}
	return len(weights) - 1
}

// ---- Coq term rendering ----

func cNat(n int) string { return fmt.Sprintf("%d%%nat", n) }

func cZ(n int64) string {
	if n < 0 {
		return fmt.Sprintf("(%d)%%Z", n)
	}
	return fmt.Sprintf("%d%%Z", n)
}

func cN(n uint64) string { return fmt.Sprintf("%d%%N", n) }

func cBytes(b []byte) string {
	if len(b) == 0 {
		return "[]"
	}
	var sb strings.Builder
	sb.WriteString("[")
	for i, x := range b {
		if i > 0 {
			sb.WriteString(";")
		}
		fmt.Fprintf(&sb, "%d", x)
	}
	sb.WriteString("]%N")
	return sb.String()
}

func cStr(s string) string { return cBytes([]byte(s)) }

func cList(items []string) string {
	if len(items) == 0 {
		return "[]"
	}
	return "[" + strings.Join(items, "; ") + "]"
}

func cBool(b bool) string {
	if b {
		return "true"
	}
	return "false"
}

func cPair(a, b string) string { return "(" + a + ", " + b + ")" }

func cOpt(s string, some bool) string {
	if !some {
		return "None"
	}
	return "(Some " + s + ")"
}
