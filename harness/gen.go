package main

import (
	"sort"
	"strings"
)

// shadow is the generator's cheap picture of the tree: path -> isDir. It only steers argument
// choice (so that collisions are frequent); it is never used as an oracle.
type shadow map[string]bool

var nsNames = []string{"a", "b", "ab"}

const nsDepth = 3

func (s shadow) files() []string {
	var out []string
	for p, d := range s {
		if !d {
			out = append(out, p)
		}
	}
	sort.Strings(out)
	return out
}

func (s shadow) dirs() []string {
	var out []string
	for p, d := range s {
		if d && p != "." {
			out = append(out, p)
		}
	}
	sort.Strings(out)
	return out
}

func depthOf(p string) int {
	if p == "." {
		return 0
	}
	return strings.Count(p, "/") + 1
}

func joinP(dir, name string) string {
	if dir == "." {
		return name
	}
	return dir + "/" + name
}

func parentOf(p string) string {
	i := strings.LastIndex(p, "/")
	if i < 0 {
		return "."
	}
	return p[:i]
}

// pickPath draws a path from a precondition class.
func (s shadow) pickPath(r *Rng) (string, string) {
	files, dirs := s.files(), s.dirs()
	name := nsNames[r.Intn(len(nsNames))]
	if r.Intn(12) == 0 {
		name = ".a" // a name with a leading dot, now and then (found by the walk, not by the candidate closure)
	}
	for tries := 0; tries < 8; tries++ {
		switch r.Pick(5, 5, 6, 2, 2, 1) {
		case 0:
			if len(files) > 0 {
				return files[r.Intn(len(files))], "file"
			}
		case 1:
			if len(dirs) > 0 {
				return dirs[r.Intn(len(dirs))], "dir"
			}
		case 2: // missing below an existing directory
			d := "."
			if len(dirs) > 0 && r.Intn(3) != 0 {
				d = dirs[r.Intn(len(dirs))]
			}
			p := joinP(d, name)
			if _, ok := s[p]; !ok && depthOf(p) <= nsDepth {
				return p, "missing"
			}
		case 3: // below a regular file
			if len(files) > 0 {
				f := files[r.Intn(len(files))]
				if depthOf(f) < nsDepth {
					q := joinP(f, name)
					if r.Intn(3) == 0 { // two (never existing) elements below the file: the nearest existing ancestor is not the parent
						q = joinP(q, nsNames[r.Intn(len(nsNames))])
					}
					return q, "belowfile"
				}
			}
		case 4: // below a missing directory, at the top or inside an existing directory
			d := "."
			if len(dirs) > 0 && r.Intn(2) == 0 {
				d = dirs[r.Intn(len(dirs))]
			}
			p := joinP(joinP(d, nsNames[r.Intn(len(nsNames))]), name)
			if _, ok := s[parentOf(p)]; !ok && depthOf(p) <= nsDepth {
				return p, "belowmissing"
			}
		default:
			return ".", "root"
		}
	}
	return name, "any"
}

func (s shadow) removeTree(p string) {
	for q := range s {
		if q == p || strings.HasPrefix(q, p+"/") {
			delete(s, q)
		}
	}
}

var perms = []uint32{0o644, 0o600, 0o755, 0o700, 0o777, 0o666, 0o444, 0o640, 0, 0o200, 0o001}

func pickPerm(r *Rng) uint32 { return perms[r.Intn(len(perms))] }

func smallData(r *Rng) []byte {
	var n int
	switch r.Pick(2, 6, 1) {
	case 0:
		n = 0
	case 1:
		n = r.Range(1, 6)
	default:
		n = r.Range(7, 20)
	}
	d := make([]byte, n)
	b := byte(r.Range(1, 230))
	for i := range d {
		d[i] = b + byte(i)
	}
	return d
}

// genNS generates a namespace history; OpenFile is issued as open + close.
// withRoot allows operations that try to remove/rename the root.
func genNS(r *Rng, withRoot bool) []Op {
	s := shadow{".": true}
	n := r.Range(8, 30)
	var ops []Op
	for len(ops) < n {
		p, cls := s.pickPath(r)
		if cls == "root" && !withRoot && r.Intn(4) != 0 {
			continue
		}
		switch r.Pick(12, 6, 14, 12, 8, 4, 12, 5, 4, 5, 5, 5) {
		case 0:
			ops = append(ops, Op{Kind: "mkdir", P: p, Perm: pickPerm(r)})
			if cls == "missing" {
				s[p] = true
			}
		case 1:
			ops = append(ops, Op{Kind: "mkdirall", P: p, Perm: pickPerm(r)})
			if cls == "missing" || cls == "belowmissing" {
				for q := p; q != "."; q = parentOf(q) {
					if _, ok := s[q]; !ok {
						s[q] = true
					}
				}
			}
		case 2:
			flag := r.Intn(64)
			if flag&fWRONLY != 0 && flag&fRDWR != 0 {
				flag &^= fRDWR
			}
			ops = append(ops, Op{Kind: "openclose", P: p, Flag: flag, Perm: pickPerm(r)})
			if cls == "missing" && flag&fCREATE != 0 {
				s[p] = false
			}
		case 3:
			ops = append(ops, Op{Kind: "writefile", P: p, Data: smallData(r), Perm: pickPerm(r)})
			if cls == "missing" {
				s[p] = false
			}
		case 4:
			if p == "." && !withRoot {
				continue
			}
			ops = append(ops, Op{Kind: "remove", P: p})
			if cls == "file" {
				delete(s, p)
			}
		case 5:
			if p == "." && !withRoot {
				continue
			}
			ops = append(ops, Op{Kind: "removeall", P: p})
			if cls == "file" || cls == "dir" {
				s.removeTree(p)
			}
		case 6:
			q, qcls := s.pickPath(r)
			switch r.Intn(8) {
			case 0:
				q = p
			case 1:
				if depthOf(p) < nsDepth {
					q = joinP(p, nsNames[r.Intn(len(nsNames))]) // destination inside source
				}
			}
			if (p == "." || q == ".") && !withRoot {
				continue
			}
			ops = append(ops, Op{Kind: "rename", P: p, Q: q})
			if (cls == "file" || cls == "dir") && qcls == "missing" && !strings.HasPrefix(q, p+"/") {
				isDir := s[p]
				var moved []string
				for k := range s {
					if k == p || strings.HasPrefix(k, p+"/") {
						moved = append(moved, k)
					}
				}
				for _, k := range moved {
					d := s[k]
					delete(s, k)
					nk := q + strings.TrimPrefix(k, p)
					if depthOf(nk) <= nsDepth+1 {
						s[nk] = d
					}
				}
				_ = isDir
			}
		case 7:
			m := pickPerm(r)
			if r.Intn(4) == 0 {
				// sticky, setgid or setuid in io/fs.FileMode's own encoding: Chmod carries them, the entry's kind must not change
				m |= []uint32{1 << 20, 1 << 22, 1 << 23}[r.Intn(3)]
			}
			ops = append(ops, Op{Kind: "chmod", P: p, Perm: m})
			if m>>9 != 0 && r.Intn(2) == 0 && (p != "." || withRoot) {
				// operations that look at the entry's kind, right after its mode gained a special bit
				ops = append(ops, Op{Kind: []string{"remove", "readdir", "mkdir", "openclose"}[r.Intn(4)], P: p, Flag: r.Intn(64), Perm: pickPerm(r)})
				if ops[len(ops)-1].Kind == "remove" && cls == "file" {
					delete(s, p)
				}
			}
		case 8:
			ops = append(ops, Op{Kind: "chtimes", P: p, T: int64(r.Range(1, 5000))})
		case 9:
			ops = append(ops, Op{Kind: "stat", P: p})
		case 10:
			ops = append(ops, Op{Kind: "readdir", P: p})
		default:
			ops = append(ops, Op{Kind: "readfile", P: p})
		}
	}
	return ops
}
