package main

import (
	"context"
	"fmt"
	"os"
	"os/exec"
	"path/filepath"
	"sort"
	"strings"
	"sync"
	"time"

	"github.com/hack-pad/hackpadfs"
	"github.com/hack-pad/hackpadfs/keyvalue"
	"github.com/hack-pad/hackpadfs/keyvalue/blob"
	"github.com/hack-pad/hackpadfs/mem"
)

func init() { commands["C15"] = runC15 }

// ---- a cooperative scheduler: one goroutine runs at a time, up to its next yield point ----

type coSched struct {
	turn    []chan struct{}
	back    chan int // goroutine id: yielded (>=0) or finished (-(id+1))
	current int
	active  bool
}

func (s *coSched) yield() {
	if !s.active {
		return
	}
	g := s.current
	s.back <- g
	<-s.turn[g]
	s.current = g
}

// yieldStore wraps the real in-memory store: every transaction and every lazy directory listing is a scheduling point.
type yieldStore struct {
	inner keyvalue.TransactionStore
	s     *coSched
}

func (y *yieldStore) Get(ctx context.Context, p string) (keyvalue.FileRecord, error) {
	return y.inner.Get(ctx, p)
}
func (y *yieldStore) Set(ctx context.Context, p string, r keyvalue.FileRecord) error {
	return y.inner.Set(ctx, p, r)
}
func (y *yieldStore) Transaction(o keyvalue.TransactionOptions) (keyvalue.Transaction, error) {
	y.s.yield()
	t, err := y.inner.Transaction(o)
	if err != nil {
		return nil, err
	}
	return &yieldTxn{t, y.s}, nil
}

type yieldTxn struct {
	keyvalue.Transaction
	s *coSched
}

func (t *yieldTxn) Commit(ctx context.Context) ([]keyvalue.OpResult, error) {
	rs, err := t.Transaction.Commit(ctx)
	for i := range rs {
		if rs[i].Record != nil {
			rs[i].Record = &yieldRec{rs[i].Record, t.s}
		}
	}
	return rs, err
}

type yieldRec struct {
	keyvalue.FileRecord
	s *coSched
}

func (r *yieldRec) ReadDirNames() ([]string, error) {
	r.s.yield() // reads the live store outside any transaction
	return r.FileRecord.ReadDirNames()
}
func (r *yieldRec) Data() (blob.Blob, error) { return r.FileRecord.Data() }

type cProg [][]Op // per goroutine

func (p cProg) String() string {
	var gs []string
	for _, ops := range p {
		var s []string
		for _, o := range ops {
			s = append(s, o.String())
		}
		gs = append(gs, "["+strings.Join(s, "; ")+"]")
	}
	return strings.Join(gs, " || ")
}

type cOutcome struct {
	results string
	tree    string
}

func outcomeKey(res [][]string, tree string) string {
	var gs []string
	for _, r := range res {
		gs = append(gs, strings.Join(r, ","))
	}
	return strings.Join(gs, " | ") + " => " + strings.ReplaceAll(tree, "./(", "./(")
}

func c15Setup(fs hackpadfs.FS) {
	_ = hackpadfs.Mkdir(fs, "d", 0o755)
	_ = hackpadfs.WriteFullFile(fs, "f", []byte{1, 2}, 0o644)
	_ = hackpadfs.Mkdir(fs, "e", 0o755)
	_ = hackpadfs.WriteFullFile(fs, "e/g", []byte{3}, 0o644)
}

func obsShort(o Obs) string {
	if o.Kind == "err" {
		return o.Err.Cls
	}
	if o.Kind == "info" {
		return fmt.Sprintf("info(%v;%o;%d)", o.Mode>>31 == 1, o.Mode&0o777, o.Size)
	}
	if o.Kind == "bytes" {
		return fmt.Sprintf("bytes%v", o.Bytes)
	}
	if o.Kind == "entries" {
		var n []string
		for _, e := range o.Entries {
			n = append(n, e.Name)
		}
		return "entries[" + strings.Join(n, " ") + "]"
	}
	return o.Kind
}

// c15Stuck counts programs in which a goroutine never reached its next scheduling point
var c15Stuck int

var c15Cands = candidatePaths([]string{"d", "e", "f", "g", "x", "y"}, 2)

// c15CandsFor: the snapshot of an outcome looks at the usual candidates AND at every path the program names (with its
// ancestors): an entry left without a parent (MkdirAll d/x/y overlapping Remove d/x) is visible only to someone who knows
// its name
func c15CandsFor(prog cProg) []string {
	var ops []Op
	for _, g := range prog {
		ops = append(ops, g...)
	}
	return withNamedPaths(c15Cands, ops)
}

// runSchedule runs the program under the given schedule prefix (then lowest-id-first); returns the
// outcome and, per step, the enabled goroutines and the one chosen.
func runSchedule(prog cProg, prefix []int) (out string, enabledAt [][]int, chosen []int, problem string) {
	s := &coSched{back: make(chan int), active: false}
	inner := mem.NewStoreForVerif()
	fs, err := keyvalue.NewFS(&yieldStore{inner, s})
	if err != nil {
		panic(err)
	}
	c15Setup(fs)
	n := len(prog)
	s.turn = make([]chan struct{}, n)
	res := make([][]string, n)
	finished := make([]bool, n)
	for g := 0; g < n; g++ {
		s.turn[g] = make(chan struct{})
		go func(g int) {
			<-s.turn[g]
			s.current = g
			w := &World{FS: fs}
			for _, o := range prog[g] {
				res[g] = append(res[g], obsShort(w.Apply(o)))
			}
			w.CloseAll()
			s.back <- -(g + 1)
		}(g)
	}
	s.active = true
	step := 0
	for {
		var enabled []int
		for g := 0; g < n; g++ {
			if !finished[g] {
				enabled = append(enabled, g)
			}
		}
		if len(enabled) == 0 {
			break
		}
		g := enabled[0]
		if step < len(prefix) {
			g = prefix[step]
		}
		enabledAt = append(enabledAt, enabled)
		chosen = append(chosen, g)
		step++
		s.current = g
		s.turn[g] <- struct{}{}
		select {
		case ev := <-s.back:
			if ev < 0 {
				finished[-ev-1] = true
			}
		case <-time.After(5 * time.Second):
			return "", enabledAt, chosen, fmt.Sprintf("goroutine %d did not reach its next scheduling point (deadlock or endless loop) under schedule %v", g, chosen)
		}
	}
	s.active = false
	for g := range res {
		for _, r := range res[g] {
			if r == "panic" {
				problem = fmt.Sprintf("an operation panicked under schedule %v", chosen)
			}
		}
	}
	return outcomeKey(res, snapText(Snapshot(fs, c15CandsFor(prog)))), enabledAt, chosen, problem
}

// exploreAll enumerates every schedule (stateless depth-first search), up to a budget.
func exploreAll(prog cProg, budget int) (outcomes map[string][]int, runs int, problem string, complete bool) {
	outcomes = map[string][]int{}
	var dfs func(prefix []int) bool
	dfs = func(prefix []int) bool {
		if runs >= budget {
			return false
		}
		out, enabledAt, chosen, prob := runSchedule(prog, prefix)
		runs++
		if prob != "" && problem == "" {
			problem = prob
		}
		if prob != "" {
			return false // a goroutine is stuck: every further schedule of this program would wait for the watchdog again
		}
		if out != "" {
			if _, ok := outcomes[out]; !ok {
				outcomes[out] = append([]int(nil), chosen...)
			}
		}
		for i := len(chosen) - 1; i >= len(prefix); i-- {
			for _, g := range enabledAt[i] {
				if g > chosen[i] {
					np := append(append([]int(nil), chosen[:i]...), g)
					if !dfs(np) {
						return false
					}
				}
			}
		}
		return true
	}
	complete = dfs(nil)
	return
}

// sequentialOutcomes: every order of the operations that respects each goroutine's program order, each operation atomic.
func sequentialOutcomes(prog cProg) map[string]bool {
	outs := map[string]bool{}
	idx := make([]int, len(prog))
	var order []int
	var rec func()
	rec = func() {
		done := true
		for g := range prog {
			if idx[g] < len(prog[g]) {
				done = false
				idx[g]++
				order = append(order, g)
				rec()
				order = order[:len(order)-1]
				idx[g]--
			}
		}
		if done {
			fs := newMem()
			c15Setup(fs)
			res := make([][]string, len(prog))
			pos := make([]int, len(prog))
			w := &World{FS: fs}
			for _, g := range order {
				res[g] = append(res[g], obsShort(w.Apply(prog[g][pos[g]])))
				pos[g]++
			}
			w.CloseAll()
			outs[outcomeKey(res, snapText(Snapshot(fs, c15CandsFor(prog))))] = true
		}
	}
	rec()
	return outs
}

func genC15Op(r *Rng, paths []string) Op {
	p := paths[r.Intn(len(paths))]
	switch r.Pick(4, 3, 3, 2, 2, 1, 1) {
	case 0:
		return Op{Kind: "mkdir", P: p, Perm: 0o755}
	case 1:
		return Op{Kind: "writefile", P: p, Data: []byte{byte(r.Range(1, 9))}, Perm: 0o644}
	case 2:
		return Op{Kind: "remove", P: p}
	case 3:
		return Op{Kind: "stat", P: p}
	case 4:
		return Op{Kind: "rename", P: p, Q: paths[r.Intn(len(paths))]}
	case 5:
		return Op{Kind: "chmod", P: p, Perm: 0o600}
	}
	return Op{Kind: "readfile", P: p}
}

// c15Anomaly returns a schedule and outcome of prog that no sequential order produces ("" if none was found).
func c15Anomaly(prog cProg, budget int) (string, []int, int) {
	outcomes, _, _, _ := exploreAll(prog, budget)
	seq := sequentialOutcomes(prog)
	var keys []string
	for k := range outcomes {
		keys = append(keys, k)
	}
	sort.Strings(keys)
	for _, k := range keys {
		if !seq[k] {
			return k, outcomes[k], len(seq)
		}
	}
	return "", nil, len(seq)
}

// c15InitialKind tells what a path is in the tree every C15 program starts from.
func c15InitialKind(p string) string {
	fs := newMem()
	c15Setup(fs)
	info, err := hackpadfs.Stat(fs, p)
	switch {
	case err != nil:
		return "N"
	case info.IsDir():
		return "D"
	}
	return "F"
}

// c15ReportAnomaly shrinks a program with a non-sequential outcome to a minimal one (removing any operation
// makes every outcome sequential) and reports it; the signature is the shape of that minimal witness: the
// operation kinds with what their paths are in the initial tree (F file, D directory, N absent).
func c15ReportAnomaly(c *Case, prog cProg, budget int) {
	cur := prog
	for changed := true; changed; {
		changed = false
		for g := range cur {
			for i := range cur[g] {
				var cand cProg
				for g2 := range cur {
					var ops []Op
					for i2, o := range cur[g2] {
						if g2 == g && i2 == i {
							continue
						}
						ops = append(ops, o)
					}
					if len(ops) > 0 {
						cand = append(cand, ops)
					}
				}
				if len(cand) < 2 {
					continue
				}
				if k, _, _ := c15Anomaly(cand, budget); k != "" {
					cur, changed = cand, true
					break
				}
			}
			if changed {
				break
			}
		}
	}
	k, sched, nseq := c15Anomaly(cur, budget)
	if k == "" { // cannot happen: cur kept an anomaly at every step
		cur = prog
		k, sched, nseq = c15Anomaly(cur, budget)
	}
	var toks []string
	for _, ops := range cur {
		for _, o := range ops {
			t := o.Kind + ":" + c15InitialKind(o.P)
			if o.Kind == "rename" {
				t += c15InitialKind(o.Q)
			}
			toks = append(toks, t)
		}
	}
	sort.Strings(toks)
	c.fail(fmt.Sprintf("program %s (minimised from %s) under schedule %v ends with [%s], which no sequential order of the operations produces (sequential outcomes: %d)", cur, prog, sched, k, nseq),
		c.Kind+":not-sequential:"+strings.Join(toks, "+"))
}

// c15ObserverPrograms: [one mutation] || [stat p; stat q] over the paths the mutation touches.
func c15ObserverPrograms(r *Rng, n int) []cProg {
	muts := []Op{
		{Kind: "rename", P: "f", Q: "x"}, {Kind: "rename", P: "f", Q: "d/x"}, {Kind: "rename", P: "e/g", Q: "x"},
		{Kind: "rename", P: "f", Q: "e/g"}, {Kind: "rename", P: "e/g", Q: "f"}, {Kind: "rename", P: "e", Q: "x"}, {Kind: "rename", P: "d", Q: "x"},
		{Kind: "mkdir", P: "x", Perm: 0o755}, {Kind: "mkdir", P: "d/x", Perm: 0o755},
		{Kind: "remove", P: "f"}, {Kind: "remove", P: "d"}, {Kind: "remove", P: "e/g"},
		{Kind: "chmod", P: "f", Perm: 0o600}, {Kind: "chmod", P: "d", Perm: 0o700},
		{Kind: "writefile", P: "x", Data: []byte{7}, Perm: 0o644}, {Kind: "writefile", P: "f", Data: []byte{7}, Perm: 0o644},
	}
	var out []cProg
	// MkdirAll of several missing levels is one transaction per level, parents first: an observer that looks at the child
	// and then at the parent can see (missing, missing), (missing, there) or (there, there) -- never a child without its parent
	out = append(out,
		cProg{{{Kind: "mkdirall", P: "x/y", Perm: 0o755}}, {{Kind: "stat", P: "x/y"}, {Kind: "stat", P: "x"}}},
		cProg{{{Kind: "mkdirall", P: "d/x/y", Perm: 0o755}}, {{Kind: "stat", P: "d/x/y"}, {Kind: "stat", P: "d/x"}}},
		cProg{{{Kind: "mkdirall", P: "x/y/g", Perm: 0o755}}, {{Kind: "stat", P: "x/y/g"}, {Kind: "stat", P: "x/y"}}})
	for i := 0; i < n; i++ {
		m := muts[(i+r.Intn(2))%len(muts)]
		a, b := m.P, m.P
		if m.Kind == "rename" {
			b = m.Q
		}
		if r.Intn(2) == 0 {
			a, b = b, a
		}
		obs := []Op{{Kind: "stat", P: a}, {Kind: "stat", P: b}}
		if r.Intn(3) == 0 {
			obs[r.Intn(2)].Kind = "readfile"
		}
		if i%3 == 2 {
			// the mutating goroutine looks at its own result afterwards while the other one looks once, possibly in the
			// middle of the mutation: whatever the observer saw, the mutator must read its own (completed) write
			own := Op{Kind: "stat", P: a}
			if r.Intn(4) == 0 {
				own = Op{Kind: "mkdir", P: a, Perm: 0o755} // fails with EEXIST exactly when the path exists
			}
			out = append(out, cProg{{m, own}, {obs[r.Intn(2)]}})
			continue
		}
		out = append(out, cProg{{m}, obs})
	}
	return out
}

func pathsOf(prog []Op) map[string]bool {
	m := map[string]bool{}
	for _, o := range prog {
		m[o.P] = true
		if o.Kind == "rename" {
			m[o.Q] = true
		}
	}
	return m
}

// runC15Race: free-running goroutines under the race detector (harness/racedev), in a child process.
func runC15Race() {
	c := &Case{ID: 9000, Kind: "race"}
	c.Cells = []string{"race/free-running"}
	dir := harnessDir()
	bin := filepath.Join(filepath.Dir(dir), "build", "racedev.test")
	build := exec.Command("go", "test", "-race", "-c", "-o", bin, "./racedev")
	build.Dir = dir
	build.Env = append(os.Environ(), "CGO_ENABLED=1") // the race detector needs cgo (the rest of the harness is built without)
	if outb, err := build.CombinedOutput(); err != nil {
		// no race detector available here: say so instead of claiming anything
		c.Text = []string{"race-detector build failed, stage skipped: " + strings.TrimSpace(string(outb))}
		c.Trivial = true
		emit(c)
		return
	}
	ms := "1500"
	if os.Getenv("VERIF_TIER") == "thorough" {
		ms = "15000"
	}
	cmd := exec.Command(bin, "-test.run", "^(TestParallel|TestConcurrentShrinks|TestConcurrentExtends)$", "-test.count", "1", "-test.timeout", "120s")
	cmd.Env = append(os.Environ(), "VERIF_RACE_MS="+ms, "GORACE=halt_on_error=0")
	outb, err := cmd.CombinedOutput()
	out := string(outb)
	c.Text = []string{fmt.Sprintf("writer + 2 readers on one file (own handles), 3 goroutines doing namespace work in private and common directories, then pairs of concurrent shrinking Truncates through two handles, %s ms under the race detector: exit error %v", ms, err)}
	first := func(marker string) string {
		i := strings.Index(out, marker)
		if i < 0 {
			return ""
		}
		j := i + 900
		if j > len(out) {
			j = len(out)
		}
		return out[i:j]
	}
	switch {
	case strings.Contains(out, "DATA RACE"):
		c.fail("free-running goroutines on one mem.FS: the race detector reports a data race:\n"+first("WARNING: DATA RACE"), "race:data-race")
	case strings.Contains(out, "VERIF-DEADLOCK") || strings.Contains(out, "test timed out"):
		c.fail("free-running goroutines on one mem.FS did not finish (deadlock): "+first("VERIF-DEADLOCK"), "race:deadlock")
	case strings.Contains(out, "VERIF-PROBLEM"):
		c.fail("free-running goroutines on one mem.FS: "+first("VERIF-PROBLEM"), "race:problem")
	case err != nil:
		c.fail("the race stage failed: "+first("FAIL")+first("panic"), "race:failed")
	}
	emit(c)
}

func runC15(r *Rng, n int, replay string) {
	defer runC15Race()
	for id := 0; id < n; id++ {
		unrelated := id%2 == 0
		ng := 2
		if r.Intn(4) == 0 {
			ng = 3
		}
		var prog cProg
		pools := [][]string{{"d/x", "d/y", "d"}, {"e/x", "e/g", "e"}, {"f", "x", "y"}}
		shared := []string{"d", "d/x", "f", "x", "e/g", "e"}
		for g := 0; g < ng; g++ {
			k := r.Range(1, 2)
			if ng == 2 && r.Intn(3) == 0 {
				k = 3
			}
			var ops []Op
			for i := 0; i < k; i++ {
				if unrelated {
					ops = append(ops, genC15Op(r, pools[g]))
				} else {
					ops = append(ops, genC15Op(r, shared))
				}
			}
			prog = append(prog, ops)
		}
		c := &Case{ID: id, Kind: map[bool]string{true: "unrelated", false: "shared"}[unrelated]}
		budget := 600
		outcomes, runs, problem, complete := exploreAll(prog, budget)
		seq := sequentialOutcomes(prog)
		c.Text = []string{fmt.Sprintf("program %s: %d schedules explored (complete=%v), %d distinct outcomes, %d sequential outcomes", prog, runs, complete, len(outcomes), len(seq))}
		c.Cells = []string{fmt.Sprintf("%s/g%d", c.Kind, ng)}
		if problem != "" {
			c.fail(fmt.Sprintf("program %s: %s", prog, problem), c.Kind+":liveness")
			c15Stuck++
			emit(c)
			if c15Stuck >= 3 {
				return // the file system deadlocks: three failing programs are enough, every further one costs seconds
			}
			continue
		}
		var keys []string
		for k := range outcomes {
			keys = append(keys, k)
		}
		sort.Strings(keys)
		for _, k := range keys {
			if !seq[k] {
				c15ReportAnomaly(c, prog, budget)
				break
			}
		}
		emit(c)
	}
	// single-mutation atomicity: one goroutine performs one mutation, the other looks twice
	if replay != "noobs" {
		for k, prog := range c15ObserverPrograms(r, n/3+6) {
			if c15Stuck >= 3 {
				break
			}
			c := &Case{ID: 5000 + k, Kind: "shared"}
			outcomes, runs, problem, complete := exploreAll(prog, 600)
			seq := sequentialOutcomes(prog)
			c.Text = []string{fmt.Sprintf("program %s: %d schedules explored (complete=%v), %d distinct outcomes, %d sequential outcomes", prog, runs, complete, len(outcomes), len(seq))}
			c.Cells = []string{"observer/g2"}
			if problem != "" {
				c.fail(fmt.Sprintf("program %s: %s", prog, problem), "shared:liveness")
				c15Stuck++
			}
			for k := range outcomes {
				if !seq[k] {
					c15ReportAnomaly(c, prog, 600)
					break
				}
			}
			emit(c)
		}
	}
	// programs over the model's alphabet (Mkdir, Remove, Stat, Chmod, Rename of a file), explored completely: the set of outcomes vs the model's
	for k := 0; k < n/2+4 && c15Stuck < 3; k++ {
		ng := 2
		if r.Intn(5) == 0 {
			ng = 3
		}
		paths := []string{"d", "d/x", "x", "e", "e/g", "f", "f/x", "x/y"}
		// rename sources are the two files of the start tree; no Mkdir of this program may turn one into a directory
		// (the model covers the Rename of non-directories only)
		files := []string{"f", "e/g"}
		dests := []string{"x", "d/x", "f", "e/g", "x/y", "e/h", "f/x", "."}
		var prog cProg
		for g := 0; g < ng; g++ {
			var ops []Op
			for i := r.Range(1, 2); i > 0; i-- {
				p := paths[r.Intn(len(paths))]
				switch r.Pick(4, 3, 2, 2, 2, 2) {
				case 0:
					if p == "f" || p == "e/g" {
						p = "d/x"
					}
					ops = append(ops, Op{Kind: "mkdir", P: p, Perm: 0o755})
				case 1:
					ops = append(ops, Op{Kind: "remove", P: p})
				case 2:
					ops = append(ops, Op{Kind: "stat", P: p})
				case 3:
					ops = append(ops, Op{Kind: "chmod", P: p, Perm: 0o755})
				case 4:
					ops = append(ops, Op{Kind: "rename", P: files[r.Intn(2)], Q: dests[r.Intn(len(dests))]})
				default:
					ops = append(ops, Op{Kind: "mkdirall", P: []string{"x/y", "d/x/y", "f/x", "e/g/h", "d/x", "x"}[r.Intn(6)], Perm: 0o755})
				}
			}
			prog = append(prog, ops)
		}
		outcomes, runs, problem, complete := exploreAll(prog, 3000)
		c := &Case{ID: n + 10 + k, Kind: "model"}
		c.Text = []string{fmt.Sprintf("program %s: %d schedules (complete=%v), %d distinct outcomes", prog, runs, complete, len(outcomes))}
		c.Cells = []string{fmt.Sprintf("model/g%d", ng)}
		if problem != "" {
			c.fail(fmt.Sprintf("program %s: %s", prog, problem), "model:liveness")
			c15Stuck++
		}
		if complete && problem == "" {
			var progC []string
			for _, ops := range prog {
				var oc []string
				for _, o := range ops {
					if o.Kind == "rename" {
						oc = append(oc, "CRename "+cStr(o.P)+" "+cStr(o.Q))
						continue
					}
					oc = append(oc, map[string]string{"mkdir": "CMkdir ", "remove": "CRemove ", "stat": "CStat ", "chmod": "CChmod ", "mkdirall": "CMkdirAll "}[o.Kind]+cStr(o.P))
				}
				progC = append(progC, cList(oc))
			}
			var outs []string
			var keys []string
			for key := range outcomes {
				keys = append(keys, key)
			}
			sort.Strings(keys)
			for _, key := range keys {
				outs = append(outs, outcomeCoq(key))
			}
			c.Coq = fmt.Sprintf("(%s, %s, %s)", "[([46]%N, true); ([100]%N, true); ([102]%N, false); ([101]%N, true); ([101;47;103]%N, false)]", cList(progC), cList(outs))
		}
		emit(c)
	}
	next := runC15Isolation(n)
	// free-running stress: many goroutines, own handles, unrelated and shared paths (run under the race detector in the thorough tier)
	for t := 0; t < 3; t++ {
		c := &Case{ID: next + t, Kind: "stress"}
		fs := newMem()
		c15Setup(fs)
		var wg sync.WaitGroup
		var mu sync.Mutex
		problem := ""
		for g := 0; g < 8; g++ {
			wg.Add(1)
			go func(g int) {
				defer wg.Done()
				defer func() {
					if e := recover(); e != nil {
						mu.Lock()
						problem = fmt.Sprint("panic: ", e)
						mu.Unlock()
					}
				}()
				rr := NewRng(uint64(1000*t + g))
				w := &World{FS: fs}
				dir := fmt.Sprintf("w%d", g)
				_ = hackpadfs.Mkdir(fs, dir, 0o755)
				for i := 0; i < 200; i++ {
					p := fmt.Sprintf("%s/%c", dir, 'a'+byte(rr.Intn(3)))
					switch rr.Intn(5) {
					case 0:
						w.Apply(Op{Kind: "writefile", P: p, Data: []byte{byte(i)}, Perm: 0o644})
					case 1:
						w.Apply(Op{Kind: "remove", P: p})
					case 2:
						w.Apply(Op{Kind: "stat", P: "f"})
					case 3:
						w.Apply(Op{Kind: "readdir", P: dir})
					default:
						w.Apply(Op{Kind: "readfile", P: p})
					}
				}
				w.CloseAll()
			}(g)
		}
		done := make(chan struct{})
		go func() { wg.Wait(); close(done) }()
		select {
		case <-done:
		case <-time.After(20 * time.Second):
			problem = "the goroutines did not finish (deadlock)"
		}
		c.Text = []string{"8 goroutines x 200 operations, each below its own directory"}
		c.Cells = []string{"stress"}
		if problem != "" {
			c.fail("free-running stress: "+problem, "stress")
		} else if bad := treeInvariant(fs, candidatePaths([]string{"w0", "w1", "a", "b", "c"}, 2)); bad != "" {
			c.fail("free-running stress: tree invariant broken afterwards: "+bad, "stress:invariant")
		}
		emit(c)
	}
}

// ---- isolation probe: a writer is held INSIDE its store transaction (before its k-th Set), an observer runs meanwhile ----

type pauseStore struct {
	inner   keyvalue.TransactionStore
	mu      sync.Mutex
	armed   bool
	sets    int
	pauseAt int
	hit     chan struct{}
	release chan struct{}
}

func (p *pauseStore) Get(ctx context.Context, k string) (keyvalue.FileRecord, error) {
	return p.inner.Get(ctx, k)
}
func (p *pauseStore) Set(ctx context.Context, k string, r keyvalue.FileRecord) error {
	return p.inner.Set(ctx, k, r)
}
func (p *pauseStore) Transaction(o keyvalue.TransactionOptions) (keyvalue.Transaction, error) {
	t, err := p.inner.Transaction(o)
	if err != nil {
		return nil, err
	}
	return &pauseTxn{t, p, o.Mode == keyvalue.TransactionReadWrite}, nil
}

type pauseTxn struct {
	keyvalue.Transaction
	p  *pauseStore
	rw bool
}

func (t *pauseTxn) gate() {
	if !t.rw {
		return
	}
	t.p.mu.Lock()
	if !t.p.armed {
		t.p.mu.Unlock()
		return
	}
	if t.p.sets < t.p.pauseAt {
		t.p.sets++
		t.p.mu.Unlock()
		return
	}
	t.p.armed = false
	t.p.mu.Unlock()
	close(t.p.hit)
	select {
	case <-t.p.release:
	case <-time.After(10 * time.Second):
	}
}
func (t *pauseTxn) Set(k string, r keyvalue.FileRecord, b blob.Blob) keyvalue.OpID {
	t.gate()
	return t.Transaction.Set(k, r, b)
}
func (t *pauseTxn) SetHandler(k string, r keyvalue.FileRecord, b blob.Blob, h keyvalue.OpHandler) keyvalue.OpID {
	t.gate()
	return t.Transaction.SetHandler(k, r, b, h)
}

// runC15Isolation: the writer's operation is stopped inside its store transaction; whatever the observer then
// reports (at once, or after waiting for the writer) and the final tree must be an outcome of running the two
// programs in one of the two orders.  The in-memory store serialises transactions with one mutex: an observer
// that gets through while the writer's transaction is open can see one of its two Sets without the other.
func runC15Isolation(firstID int) int {
	writers := []Op{{Kind: "rename", P: "f", Q: "x"}, {Kind: "rename", P: "e/g", Q: "d/y"}}
	observers := [][]Op{
		{{Kind: "stat", P: "@new"}, {Kind: "stat", P: "@old"}},
		{{Kind: "stat", P: "@old"}, {Kind: "stat", P: "@new"}},
		{{Kind: "readfile", P: "@new"}, {Kind: "readfile", P: "@old"}},
		{{Kind: "remove", P: "@old"}},
		{{Kind: "stat", P: "@new"}, {Kind: "remove", P: "@old"}},
		{{Kind: "readdir", P: "."}, {Kind: "readdir", P: "d"}},
		{{Kind: "writefile", P: "@old", Data: []byte{9}, Perm: 0o644}},
		{{Kind: "mkdir", P: "@new", Perm: 0o755}},
	}
	id := firstID
	for _, wop := range writers {
		for _, obs := range observers {
			for pauseAt := 0; pauseAt < 2; pauseAt++ {
				var bops []Op
				for _, o := range obs {
					o.P = strings.ReplaceAll(strings.ReplaceAll(o.P, "@new", wop.Q), "@old", wop.P)
					bops = append(bops, o)
				}
				prog := cProg{{wop}, bops}
				c := &Case{ID: id, Kind: "isolation", Trivial: true}
				id++
				c.Cells = []string{"isolation/" + bops[0].Kind}
				ps := &pauseStore{inner: mem.NewStoreForVerif(), pauseAt: pauseAt, hit: make(chan struct{}), release: make(chan struct{})}
				fs, err := keyvalue.NewFS(ps)
				if err != nil {
					panic(err)
				}
				c15Setup(fs)
				ps.mu.Lock()
				ps.armed = true
				ps.mu.Unlock()
				res := make([][]string, 2)
				aDone, bDone := make(chan struct{}), make(chan struct{})
				go func() {
					defer close(aDone)
					w := &World{FS: fs}
					res[0] = append(res[0], obsShort(w.Apply(wop)))
					w.CloseAll()
				}()
				during := false
				select {
				case <-ps.hit:
					go func() {
						defer close(bDone)
						w := &World{FS: fs}
						for _, o := range bops {
							res[1] = append(res[1], obsShort(w.Apply(o)))
						}
						w.CloseAll()
					}()
					select {
					case <-bDone:
						during = true
					case <-time.After(30 * time.Millisecond):
					}
					close(ps.release)
				case <-aDone:
					// the writer made fewer Sets than expected: nothing was held
					close(bDone)
				case <-time.After(5 * time.Second):
					close(bDone)
				}
				hang := false
				for _, ch := range []chan struct{}{aDone, bDone} {
					select {
					case <-ch:
					case <-time.After(5 * time.Second):
						hang = true
					}
				}
				c.Text = []string{fmt.Sprintf("%s ; the writer is held inside its store transaction before Set #%d; observer finished meanwhile: %v", prog, pauseAt+1, during)}
				if hang {
					c.fail(c.Text[0]+": the programs did not finish", "isolation:hang")
					emit(c)
					continue
				}
				if len(res[1]) == len(bops) {
					key := outcomeKey(res, snapText(Snapshot(fs, c15CandsFor(prog))))
					if !sequentialOutcomes(prog)[key] {
						c.fail(fmt.Sprintf("%s: outcome %s is not the outcome of either order of the two programs", c.Text[0], key), "isolation:mid-transaction:"+bops[0].Kind)
					}
				}
				emit(c)
			}
		}
	}
	return id
}

func uniq(s []string) []string {
	var out []string
	for i, x := range s {
		if i == 0 || x != s[i-1] {
			out = append(out, x)
		}
	}
	return out
}

// outcomeCoq renders an outcome key "r,r | r => tree" as the model's outcome term.
func outcomeCoq(key string) string {
	parts := strings.SplitN(key, " => ", 2)
	var gs []string
	for _, g := range strings.Split(parts[0], " | ") {
		var rs []string
		for _, r := range strings.Split(g, ",") {
			switch {
			case r == "ok":
				rs = append(rs, "COk")
			case strings.HasPrefix(r, "info(true"):
				rs = append(rs, "CInfo true")
			case strings.HasPrefix(r, "info(false"):
				rs = append(rs, "CInfo false")
			case r == "":
			default:
				rs = append(rs, "CErr "+r)
			}
		}
		gs = append(gs, cList(rs))
	}
	var st []string
	for _, e := range strings.Fields(parts[1]) {
		// entries look like  path/(0755)  or  path(0644,[1  2])  -- take the path and the kind
		i := strings.Index(e, "(")
		if i < 0 {
			continue
		}
		name := e[:i]
		isDir := strings.HasSuffix(name, "/")
		name = strings.TrimSuffix(name, "/")
		if name == "." || name == "" {
			name = "."
		}
		st = append(st, cPair(cStr(name), cBool(isDir)))
	}
	return cPair(cList(gs), cList(st))
}
