package main

import (
	"bytes"
	"fmt"
	"io"
	"strings"

	"github.com/hack-pad/hackpadfs"
	"github.com/hack-pad/hackpadfs/keyvalue/blob"
)

func init() { c19After = runC19Adapters }

// bareBlob offers Bytes and Len only: the package helpers View/Slice/Set/Grow/Truncate take their fallback route
type bareBlob struct{ d []byte }

func (b bareBlob) Bytes() []byte { return b.d }
func (b bareBlob) Len() int      { return len(b.d) }

// runC19Adapters: the package-level helpers of keyvalue/blob on a blob without the optional methods (fallback through
// NewBytes(b.Bytes())) and the io adapters Read/ReadAt/Write/WriteAt over plain io values: the same byte-sequence results
// as the methods of Bytes, errors (never a panic) for out-of-range arguments.
func runC19Adapters(r *Rng, firstID, n int) {
	for k := 0; k < n; k++ {
		c := &Case{ID: firstID + k, Kind: "adapters", Trivial: true}
		c.Cells = []string{"adapters"}
		l := r.Range(0, 20)
		d := make([]byte, l)
		for i := range d {
			d[i] = byte(30 + i)
		}
		x, y := int64(r.Range(-2, l+2)), int64(r.Range(-2, l+2))
		fail := func(f string, a ...interface{}) { c.fail(fmt.Sprintf(f, a...), "adapters:"+strings.Fields(f)[0]) }
		inRange := x >= 0 && y >= x && y <= int64(l)
		func() {
			defer func() {
				if e := recover(); e != nil {
					fail("panic in a helper on a blob of %d bytes with arguments %d, %d: %v", l, x, y, e)
				}
			}()
			bare := bareBlob{append([]byte(nil), d...)}
			v, err := blob.View(bare, x, y)
			c.Text = append(c.Text, fmt.Sprintf("View(bare[%d], %d, %d) -> err=%v", l, x, y, err))
			if inRange != (err == nil) {
				fail("View fallback: in-range=%v but err=%v for [%d:%d] of %d bytes", inRange, err, x, y, l)
			} else if err == nil && !bytes.Equal(v.Bytes(), d[x:y]) {
				fail("View fallback returned %v, the bytes are %v", v.Bytes(), d[x:y])
			}
			sl, err := blob.Slice(bare, x, y)
			if inRange != (err == nil) {
				fail("Slice fallback: in-range=%v but err=%v for [%d:%d] of %d bytes", inRange, err, x, y, l)
			} else if err == nil && !bytes.Equal(sl.Bytes(), d[x:y]) {
				fail("Slice fallback returned %v, the bytes are %v", sl.Bytes(), d[x:y])
			}
			// (Bytes.Set answers a non-empty source at offset 0 of an EMPTY blob with an error: the model's and the main
			// oracle's "quirk"; accepted here as there)
			if _, err := blob.Set(bare, blob.NewBytes([]byte{1, 2}), x); (x >= 0 && x <= int64(l)) != (err == nil) && !(l == 0 && x == 0) {
				fail("Set fallback at offset %d of %d bytes: err=%v", x, l, err)
			}
			if err := blob.Grow(bare, x); (x >= 0) != (err == nil) {
				fail("Grow fallback by %d: err=%v", x, err)
			}
			if err := blob.Truncate(bare, x); (x >= 0) != (err == nil) {
				fail("Truncate fallback to %d of %d bytes: err=%v", x, l, err)
			}
			// io adapters over plain readers and writers
			// (a bytes.Reader at its end answers io.EOF even to an empty read: with l == 0 that is every read)
			want := r.Range(0, l+3)
			rb, n1, err := blob.Read(bytes.NewReader(d), want)
			exp := want
			if exp > l {
				exp = l
			}
			if n1 != exp || (err != nil && !(err == io.EOF && exp == 0 && (want > 0 || l == 0))) || rb == nil || rb.Len() != want || !bytes.Equal(rb.Bytes()[:n1], d[:exp]) {
				fail("Read adapter: asked %d of %d bytes, got n=%d err=%v", want, l, n1, err)
			}
			off := int64(r.Range(0, l))
			rb2, n2, err2 := blob.ReadAt(bytes.NewReader(d), want, off)
			exp2 := int64(want)
			if off+exp2 > int64(l) {
				exp2 = int64(l) - off
			}
			if exp2 < 0 {
				exp2 = 0
			}
			if int64(n2) != exp2 || rb2 == nil || !bytes.Equal(rb2.Bytes()[:n2], d[off:off+exp2]) || (err2 != nil && err2 != io.EOF) || (n2 < want && err2 == nil) {
				fail("ReadAt adapter: asked %d at %d of %d bytes, got n=%d err=%v", want, off, l, n2, err2)
			}
			var out bytes.Buffer
			if n3, err := blob.Write(&out, blob.NewBytes(d)); n3 != l || err != nil || !bytes.Equal(out.Bytes(), d) {
				fail("Write adapter: wrote n=%d err=%v of %d bytes", n3, err, l)
			}
			fs := newMem()
			f, _ := hackpadfs.OpenFile(fs, "f", hackpadfs.FlagReadWrite|hackpadfs.FlagCreate, 0o644)
			if wa, ok := f.(io.WriterAt); ok {
				n4, err := blob.WriteAt(wa, blob.NewBytes(d), 3)
				got, _ := hackpadfs.ReadFile(fs, "f")
				wantFile := append(make([]byte, 3), d...)
				if l == 0 {
					wantFile = got // an empty write does not grow the file
				}
				if n4 != l || err != nil || !bytes.Equal(got, wantFile) {
					fail("WriteAt adapter through a file handle: n=%d err=%v file=%v", n4, err, got)
				}
			}
			_ = f.Close()
		}()
		emit(c)
	}
}
