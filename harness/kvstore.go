package main

import (
	"context"
	"errors"
	"strings"
	"sync"
	"time"

	"github.com/hack-pad/hackpadfs"
	"github.com/hack-pad/hackpadfs/keyvalue"
	"github.com/hack-pad/hackpadfs/keyvalue/blob"
)

// plainStore is a keyvalue.Store without transactions (the path custom stores such as the S3
// example take: keyvalue.FS drives it through the serial fallback transaction). It can fail any
// single call: Get, Set, a record's lazy Data() or ReadDirNames() -- calls are numbered from 0 and
// the call whose number equals failAt fails with errInjected.
type plainStore struct {
	mu      sync.Mutex
	recs    map[string]*plainRec
	calls   int
	failAt  int // -1 = never
	trace   []string
	tracing bool
}

type plainRec struct {
	data    blob.Blob
	mode    hackpadfs.FileMode
	modTime time.Time
}

var errInjected = errors.New("injected store failure")

func newPlainStore() *plainStore { return &plainStore{recs: map[string]*plainRec{}, failAt: -1} }

// tick counts one store call and tells whether it must fail.
func (s *plainStore) tick(what string) bool {
	n := s.calls
	s.calls++
	if s.tracing {
		s.trace = append(s.trace, what)
	}
	return n == s.failAt
}

func (s *plainStore) traceAt(i int) string {
	if i >= 0 && i < len(s.trace) {
		return s.trace[i]
	}
	return "?"
}

type plainView struct {
	s    *plainStore
	path string
	rec  *plainRec
}

func (v *plainView) Data() (blob.Blob, error) {
	v.s.mu.Lock()
	defer v.s.mu.Unlock()
	if v.s.tick("data " + v.path) {
		return nil, errInjected
	}
	return v.rec.data, nil
}

func (v *plainView) ReadDirNames() ([]string, error) {
	v.s.mu.Lock()
	defer v.s.mu.Unlock()
	if v.s.tick("names " + v.path) {
		return nil, errInjected
	}
	if !v.rec.mode.IsDir() {
		return nil, hackpadfs.ErrNotDir
	}
	prefix := v.path + "/"
	if v.path == "." {
		prefix = ""
	}
	var names []string
	for k := range v.s.recs {
		if strings.HasPrefix(k, prefix) {
			rest := strings.TrimPrefix(k, prefix)
			if rest != "" && !strings.Contains(rest, "/") && !(v.path == "." && rest == ".") {
				names = append(names, rest)
			}
		}
	}
	return names, nil
}

func (v *plainView) Size() int64              { return int64(v.rec.data.Len()) }
func (v *plainView) Mode() hackpadfs.FileMode { return v.rec.mode }
func (v *plainView) ModTime() time.Time       { return v.rec.modTime }
func (v *plainView) Sys() interface{}         { return nil }

func (s *plainStore) Get(ctx context.Context, path string) (keyvalue.FileRecord, error) {
	s.mu.Lock()
	defer s.mu.Unlock()
	if s.tick("get " + path) {
		return nil, errInjected
	}
	r, ok := s.recs[path]
	if !ok {
		return nil, hackpadfs.ErrNotExist
	}
	return &plainView{s: s, path: path, rec: r}, nil
}

func (s *plainStore) Set(ctx context.Context, path string, src keyvalue.FileRecord) error {
	s.mu.Lock()
	bad := s.tick("set " + path)
	s.mu.Unlock()
	if bad {
		return errInjected
	}
	if src == nil {
		s.mu.Lock()
		delete(s.recs, path)
		s.mu.Unlock()
		return nil
	}
	rec := &plainRec{mode: src.Mode(), modTime: src.ModTime()}
	if rec.mode.IsDir() {
		rec.data = blob.NewBytes(nil)
	} else {
		data, err := src.Data() // memoised by the FS: it loaded the data before the Set
		if err != nil {
			return err
		}
		rec.data = data
	}
	s.mu.Lock()
	s.recs[path] = rec
	s.mu.Unlock()
	return nil
}

func newKVPlain() (hackpadfs.FS, *plainStore) {
	st := newPlainStore()
	fs, err := keyvalue.NewFS(st)
	if err != nil {
		panic(err)
	}
	return fs, st
}
