package main

import (
	"errors"
	"fmt"
	"io"
	gofs "io/fs"
	"sort"
	"strings"
	"time"

	"github.com/hack-pad/hackpadfs"
)

func init() { commands["C08"] = runC08 }

var memNative = map[string]bool{"OpenFile": true, "Mkdir": true, "MkdirAll": true, "Remove": true, "Rename": true, "Stat": true, "Chmod": true, "Chtimes": true}

// faultFull delegates every optional interface to base and can fail the k-th primitive call.
type faultFull struct {
	base   hackpadfs.FS
	calls  *int
	failAt int
	log    *[]string
	bare   bool   // the injected failure is a bare error value, not a *PathError
	failOn string // when set: every primitive call of this kind (first word of its log line) fails
	hits   *int   // (with failOn) how many calls failed
}

func (f faultFull) tick(what string) error {
	n := *f.calls
	*f.calls = n + 1
	if f.log != nil {
		*f.log = append(*f.log, what)
	}
	if f.failOn != "" && strings.Fields(what)[0] == f.failOn {
		if f.hits != nil {
			*f.hits++
		}
		if f.bare {
			return errInjected
		}
		return &hackpadfs.PathError{Op: "injected", Path: what, Err: errInjected}
	}
	if n == f.failAt {
		if f.bare {
			return errInjected
		}
		return &hackpadfs.PathError{Op: "injected", Path: what, Err: errInjected}
	}
	return nil
}

type faultFile struct {
	hackpadfs.File
	f    faultFull
	name string
}

func (ff faultFile) Write(p []byte) (int, error) {
	if err := ff.f.tick("file.Write " + ff.name); err != nil {
		return 0, err
	}
	return hackpadfs.WriteFile(ff.File, p)
}
func (ff faultFile) Stat() (hackpadfs.FileInfo, error) {
	if err := ff.f.tick("file.Stat " + ff.name); err != nil {
		return nil, err
	}
	return ff.File.Stat()
}
func (ff faultFile) Read(p []byte) (int, error) {
	if err := ff.f.tick("file.Read " + ff.name); err != nil {
		return 0, err
	}
	return ff.File.Read(p)
}
func (ff faultFile) ReadDir(n int) ([]hackpadfs.DirEntry, error) {
	if err := ff.f.tick("file.ReadDir " + ff.name); err != nil {
		return nil, err
	}
	return hackpadfs.ReadDirFile(ff.File, n)
}
func (ff faultFile) Chmod(mode hackpadfs.FileMode) error {
	if err := ff.f.tick("file.Chmod " + ff.name); err != nil {
		return err
	}
	return hackpadfs.ChmodFile(ff.File, mode)
}
func (ff faultFile) Chtimes(a, m time.Time) error {
	if err := ff.f.tick("file.Chtimes " + ff.name); err != nil {
		return err
	}
	return hackpadfs.ChtimesFile(ff.File, a, m)
}
func (ff faultFile) Chown(uid, gid int) error {
	if err := ff.f.tick("file.Chown " + ff.name); err != nil {
		return err
	}
	return hackpadfs.ChownFile(ff.File, uid, gid)
}
func (ff faultFile) Truncate(size int64) error          { return hackpadfs.TruncateFile(ff.File, size) }
func (ff faultFile) Seek(o int64, w int) (int64, error) { return hackpadfs.SeekFile(ff.File, o, w) }
func (ff faultFile) Close() error {
	if ff.name[0] == 'w' { // only handles opened for writing: a failing Close can lose data
		if err := ff.f.tick("file.Close " + ff.name); err != nil {
			_ = ff.File.Close()
			return err
		}
	}
	return ff.File.Close()
}

func (f faultFull) wrapFile(file hackpadfs.File, err error, name string) (hackpadfs.File, error) {
	if err != nil || file == nil {
		return file, err
	}
	return faultFile{file, f, name}, nil
}

func (f faultFull) Open(name string) (hackpadfs.File, error) {
	if err := f.tick("Open " + name); err != nil {
		return nil, err
	}
	file, err := f.base.Open(name)
	return f.wrapFile(file, err, "r:"+name)
}
func (f faultFull) OpenFile(name string, flag int, perm hackpadfs.FileMode) (hackpadfs.File, error) {
	if err := f.tick("OpenFile " + name); err != nil {
		return nil, err
	}
	file, err := f.base.(hackpadfs.OpenFileFS).OpenFile(name, flag, perm)
	return f.wrapFile(file, err, "w:"+name)
}
func (f faultFull) Create(name string) (hackpadfs.File, error) {
	if err := f.tick("Create " + name); err != nil {
		return nil, err
	}
	file, err := f.base.(hackpadfs.CreateFS).Create(name)
	return f.wrapFile(file, err, "w:"+name)
}
func (f faultFull) Mkdir(name string, perm hackpadfs.FileMode) error {
	if err := f.tick("Mkdir " + name); err != nil {
		return err
	}
	return f.base.(hackpadfs.MkdirFS).Mkdir(name, perm)
}
func (f faultFull) MkdirAll(name string, perm hackpadfs.FileMode) error {
	if err := f.tick("MkdirAll " + name); err != nil {
		return err
	}
	return f.base.(hackpadfs.MkdirAllFS).MkdirAll(name, perm)
}
func (f faultFull) Remove(name string) error {
	if err := f.tick("Remove " + name); err != nil {
		return err
	}
	return f.base.(hackpadfs.RemoveFS).Remove(name)
}
func (f faultFull) RemoveAll(name string) error {
	if err := f.tick("RemoveAll " + name); err != nil {
		return err
	}
	return f.base.(hackpadfs.RemoveAllFS).RemoveAll(name)
}
func (f faultFull) Rename(o, n string) error {
	if err := f.tick("Rename " + o); err != nil {
		return err
	}
	return f.base.(hackpadfs.RenameFS).Rename(o, n)
}
func (f faultFull) Stat(name string) (hackpadfs.FileInfo, error) {
	if err := f.tick("Stat " + name); err != nil {
		return nil, err
	}
	return f.base.(hackpadfs.StatFS).Stat(name)
}
func (f faultFull) Lstat(name string) (hackpadfs.FileInfo, error) {
	if err := f.tick("Lstat " + name); err != nil {
		return nil, err
	}
	return f.base.(hackpadfs.LstatFS).Lstat(name)
}
func (f faultFull) Chmod(name string, mode hackpadfs.FileMode) error {
	if err := f.tick("Chmod " + name); err != nil {
		return err
	}
	return f.base.(hackpadfs.ChmodFS).Chmod(name, mode)
}
func (f faultFull) Chown(name string, uid, gid int) error {
	if err := f.tick("Chown " + name); err != nil {
		return err
	}
	return f.base.(hackpadfs.ChownFS).Chown(name, uid, gid)
}
func (f faultFull) Chtimes(name string, a, m time.Time) error {
	if err := f.tick("Chtimes " + name); err != nil {
		return err
	}
	return f.base.(hackpadfs.ChtimesFS).Chtimes(name, a, m)
}
func (f faultFull) ReadDir(name string) ([]hackpadfs.DirEntry, error) {
	if err := f.tick("ReadDir " + name); err != nil {
		return nil, err
	}
	return f.base.(hackpadfs.ReadDirFS).ReadDir(name)
}
func (f faultFull) ReadFile(name string) ([]byte, error) {
	if err := f.tick("ReadFile " + name); err != nil {
		return nil, err
	}
	return f.base.(hackpadfs.ReadFileFS).ReadFile(name)
}
func (f faultFull) WriteFile(name string, data []byte, perm hackpadfs.FileMode) error {
	if err := f.tick("WriteFile " + name); err != nil {
		return err
	}
	return f.base.(hackpadfs.WriteFileFS).WriteFile(name, data, perm)
}
func (f faultFull) Symlink(o, n string) error {
	if err := f.tick("Symlink " + o); err != nil {
		return err
	}
	return f.base.(hackpadfs.SymlinkFS).Symlink(o, n)
}
func (f faultFull) Sub(dir string) (hackpadfs.FS, error) {
	if err := f.tick("Sub " + dir); err != nil {
		return nil, err
	}
	return f.base.(hackpadfs.SubFS).Sub(dir)
}

// callHelper applies one package-level helper.
func callHelper(fs hackpadfs.FS, h string, o Op) (obs Obs) {
	defer func() {
		if e := recover(); e != nil {
			obs = Obs{Kind: "panic", Err: &CErr{Kind: "B", Cls: "EOTHER", Path: fmt.Sprint(e)}}
		}
	}()
	res := func(err error) Obs {
		if err != nil {
			return Obs{Kind: "err", Err: canonErr(err)}
		}
		return Obs{Kind: "ok"}
	}
	infoObs := func(info hackpadfs.FileInfo, err error) Obs {
		if err != nil {
			return res(err)
		}
		return Obs{Kind: "info", Name: info.Name(), Mode: uint32(info.Mode()), Size: info.Size(), MT: explicitMT(info.ModTime())}
	}
	switch h {
	case "Create":
		f, err := hackpadfs.Create(fs, o.P)
		if err != nil || f == nil {
			return res(err)
		}
		// the result of Create is the handle: what it can do is part of the result (os.Create: read-write, at offset 0,
		// on an empty file).  Probed on the underlying file, outside the fault accounting.
		var probe hackpadfs.File = f
		if ff, ok := f.(faultFile); ok {
			probe = ff.File
		}
		var abil []string
		step := func(what string, err error) {
			if err != nil && err != io.EOF {
				abil = append(abil, what+"="+classOf(err))
			} else {
				abil = append(abil, what+"=ok")
			}
		}
		_, werr := hackpadfs.WriteFile(probe, []byte{7, 8})
		step("write", werr)
		_, serr := hackpadfs.SeekFile(probe, 0, io.SeekStart)
		step("seek", serr)
		buf := make([]byte, 4)
		n, rerr := probe.Read(buf)
		step(fmt.Sprintf("read(%v)", buf[:n]), rerr)
		_ = f.Close()
		return Obs{Kind: "ok", Name: strings.Join(abil, " ")}
	case "OpenFile":
		f, err := hackpadfs.OpenFile(fs, o.P, sysFlag(o.Flag), gofs.FileMode(o.Perm))
		if f != nil {
			_ = f.Close()
		}
		return res(err)
	case "Lstat":
		return infoObs(hackpadfs.Lstat(fs, o.P))
	case "LstatOrStat":
		return infoObs(hackpadfs.LstatOrStat(fs, o.P))
	case "Chown":
		return res(hackpadfs.Chown(fs, o.P, 0, 0))
	case "Symlink":
		return res(hackpadfs.Symlink(fs, o.P, o.Q))
	case "Sub":
		_, err := hackpadfs.Sub(fs, o.P)
		return res(err)
	}
	w := &World{FS: fs}
	kind := map[string]string{"Mkdir": "mkdir", "MkdirAll": "mkdirall", "Remove": "remove", "RemoveAll": "removeall", "Rename": "rename", "Stat": "stat",
		"Chmod": "chmod", "Chtimes": "chtimes", "ReadDir": "readdir", "ReadFile": "readfile", "WriteFullFile": "writefile"}[h]
	o.Kind = kind
	defer w.CloseAll()
	return w.Apply(o)
}

func runC08(r *Rng, n int, replay string) {
	cands := candidatePaths(nsNames, nsDepth)
	helpers := make([]string, 0, len(helperUniverses))
	for h := range helperUniverses {
		helpers = append(helpers, h)
	}
	sort.Strings(helpers)
	id := 0
	for it := 0; id < n; it++ {
		h := helpers[it%len(helpers)]
		baseKind := []string{"mem", "os"}[(it/len(helpers))%2]
		universe := helperUniverses[h]
		var native, nativeOwn []string
		for _, m := range universe {
			if baseKind == "os" || memNative[m] || m == "Mount" {
				native = append(native, m)
				if m != "Mount" {
					nativeOwn = append(nativeOwn, m)
				}
			}
		}
		sort.Strings(native)
		sort.Strings(nativeOwn)
		// "Mount": the wrapper is also a MountFS, the identity mount onto a file system exposing all the base natively offers
		ownKey := strings.Join(nativeOwn, ",")
		// a start state and arguments from the C01 alphabet
		prepSeed := r.Next()
		prep := genNS(NewRng(prepSeed), false)
		if len(prep) > 10 {
			prep = prep[:10]
		}
		sh := shadow{".": true}
		linkTo := "" // os only: "ln" is a symbolic link to this path (Lstat and Stat then differ)
		mkBase := func() (hackpadfs.FS, func()) {
			var fs hackpadfs.FS
			done := func() {}
			if baseKind == "mem" {
				fs = newMem()
			} else {
				fs, done = newOSWorld()
			}
			w := &World{FS: fs}
			for _, o := range prep {
				w.Apply(o)
			}
			w.CloseAll()
			if linkTo != "" {
				if err := hackpadfs.Symlink(fs, linkTo, "ln"); err != nil {
					panic(err)
				}
			}
			return fs, done
		}
		probe, probeDone := mkBase()
		for _, p := range cands {
			if info, err := hackpadfs.Stat(probe, p); err == nil {
				sh[p] = info.IsDir()
			}
		}
		probeDone()
		p, _ := sh.pickPath(r)
		q, _ := sh.pickPath(r)
		arg := Op{P: p, Q: q, Perm: pickPerm(r), Data: smallData(r), T: int64(r.Range(1, 999)), Flag: r.Intn(64) &^ fRDWR}
		if r.Intn(4) == 0 {
			arg.Perm |= []uint32{1 << 20, 1 << 22, 1 << 23}[r.Intn(3)] // sticky, setgid, setuid: a fallback must carry them like the native method
		}
		if arg.Flag == 0 {
			arg.Flag = fWRONLY | fCREATE
		}
		if r.Intn(10) == 0 && p != "." {
			// an invalid name whose leading elements are a valid path: every route must refuse it before doing anything
			arg.P = p + []string{"/", "//x", "/../x", "/.", "/\xff"}[r.Intn(5)]
		}
		if baseKind == "os" && (h == "Lstat" || h == "LstatOrStat" || h == "Stat" || h == "ReadFile" || h == "Chmod") && r.Intn(2) == 0 {
			if _, ok := sh[p]; ok && p != "." {
				linkTo, arg.P = p, "ln"
			}
		}
		// reference: everything the base natively offers is exposed
		fullFS, fullDone := mkBase()
		calls := 0
		full := maskConstructors[ownKey](faultFull{base: fullFS, calls: &calls, failAt: -1}, nil)
		want := callHelper(full, h, arg)
		wantSnap := Snapshot(fullFS, cands)
		fullDone()
		for mask := 0; mask < 1<<len(native) && id < n; mask++ {
			var subset []string
			for i, m := range native {
				if mask&(1<<i) != 0 {
					subset = append(subset, m)
				}
			}
			baseFS, done := mkBase()
			before := Snapshot(baseFS, cands)
			calls := 0
			var log []string
			ff := faultFull{base: baseFS, calls: &calls, failAt: -1, log: &log}
			masked := maskConstructors[strings.Join(subset, ",")](ff, maskConstructors[ownKey](ff, nil))
			got := callHelper(masked, h, arg)
			after := Snapshot(baseFS, cands)
			c := &Case{ID: id, Kind: baseKind + "/" + h}
			id++
			c.Text = []string{fmt.Sprintf("[%s] %s(%q%s) exposing {%s} of {%s} after %d prep ops (seed %d): %s   | all exposed: %s",
				baseKind, h, arg.P, map[bool]string{true: "," + arg.Q, false: ""}[h == "Rename" || h == "Symlink"], strings.Join(subset, ","), strings.Join(native, ","), len(prep), prepSeed, got, want)}
			c.Cells = []string{fmt.Sprintf("%s/%s/%d-of-%d", baseKind, h, len(subset), len(native))}
			sig := baseKind + ":" + h + ":" + strings.Join(subset, "+")
			switch {
			case got.Kind == "panic":
				c.fail(c.Text[0]+": panicked", sig+":panic")
			case got.Kind == "err" && got.Err.Cls == "ENOSYS":
				if d := snapDiffExact(before, after); d != "" {
					c.fail(c.Text[0]+": failed with ErrNotImplemented but changed the file system: "+d, sig+":enosys-changed")
				}
			case h == "LstatOrStat" && linkTo != "" && !strings.Contains(","+strings.Join(subset, ",")+",", ",Lstat,") && !strings.Contains(","+strings.Join(subset, ",")+",", ",Mount,"):
				// no Lstat within reach: answering a symbolic link with Stat is what this helper is for
			default:
				if got.failed() != want.failed() || (!got.failed() && obsData(got) != obsData(want)) {
					c.fail(c.Text[0]+": result differs from the one with all interfaces exposed", sig+":result")
				} else if d := snapDiffExact(wantSnap, after); d != "" {
					c.fail(c.Text[0]+": final state differs from the one with all interfaces exposed: "+d, sig+":state")
				}
			}
			if baseKind == "mem" {
				if mo, ok := c08ModelOp(h, arg); ok {
					has := map[string]bool{}
					for _, m := range subset {
						has[m] = true
					}
					if has["Mount"] {
						// the identity mount reaches every native method of the base: the same as exposing them all
						for _, m := range nativeOwn {
							has[m] = true
						}
					}
					capsC := fmt.Sprintf("(mkCaps %s %s %s %s %s %s %s %s)", cBool(has["OpenFile"]), cBool(has["Mkdir"]), cBool(has["MkdirAll"]), cBool(has["Remove"]),
						cBool(has["Rename"]), cBool(has["Stat"]), cBool(has["Chmod"]), cBool(has["Chtimes"]))
					var prepC []string
					for _, o := range prep {
						prepC = append(prepC, o.coq())
					}
					c.Coq = fmt.Sprintf("(%s, %s, %s, %s, %s)", capsC, cList(prepC), mo.coq(), got.coq(), snapCoqFS(after))
				}
			}
			emit(c)
			done()
			// a failure injected into each primitive call the (fallback) path makes
			total := calls
			if got.failed() || total == 0 || total > 40 {
				continue
			}
			for k := 0; k < total && id < n; k++ {
				baseFS, done := mkBase()
				calls := 0
				ff := faultFull{base: baseFS, calls: &calls, failAt: k}
				masked := maskConstructors[strings.Join(subset, ",")](ff, maskConstructors[ownKey](ff, nil))
				r2 := callHelper(masked, h, arg)
				fc := &Case{ID: id, Kind: baseKind + "/" + h + "/fault"}
				id++
				fc.Text = []string{fmt.Sprintf("[%s] %s(%q) exposing {%s}: primitive call %d (%s) fails -> %s", baseKind, h, arg.P, strings.Join(subset, ","), k, log[k], r2)}
				fc.Cells = []string{fmt.Sprintf("%s/%s/fault", baseKind, h)}
				ownWriteClose := strings.HasPrefix(log[k], "file.Close") && h != "Create" && h != "OpenFile"
				if r2.Kind == "panic" {
					fc.fail(fc.Text[0]+": panicked", sig+":fault-panic")
				} else if ownWriteClose && !r2.failed() {
					// the helper opened this handle for writing itself: a failing Close may have lost the data (write-back
					// file systems store on Close), so it is never immaterial
					fc.fail(fc.Text[0]+": the helper reported success although Close of the file it wrote failed", baseKind+":"+h+":fault-silent:file.Close")
				} else if !r2.failed() && !(obsData(r2) == obsData(got) && snapDiffExact(after, Snapshot(baseFS, cands)) == "") &&
					!((h == "Create" || h == "OpenFile") && strings.HasPrefix(log[k], "file.Close")) {
					// (success is acceptable only when the failed call was immaterial: same result and same final state
					//  as without the failure; the Close of Create/OpenFile's handle is the harness's own)
					fc.fail(fc.Text[0]+": the helper reported success although a primitive it relied on failed", baseKind+":"+h+":fault-silent:"+strings.Fields(log[k])[0])
				}
				emit(fc)
				done()
			}
		}
	}
	runC08Nested(r, n)
	runC08FileHelpers(n + 200)
}

// minFile exposes Read, Stat and Close of a handle and nothing else; Stat can be made to fail
type minFile struct {
	f        hackpadfs.File
	statFail bool
}

func (m minFile) Read(p []byte) (int, error) { return m.f.Read(p) }
func (m minFile) Close() error               { return m.f.Close() }
func (m minFile) Stat() (hackpadfs.FileInfo, error) {
	if m.statFail {
		return nil, &hackpadfs.PathError{Op: "stat", Path: "f", Err: errInjected}
	}
	return m.f.Stat()
}

// runC08FileHelpers: the *File helpers on a handle that lacks the optional method: an error matching ErrNotImplemented
// (or the error of the Stat the helper needed), never success, and the file is untouched; on the full handle the helper
// is the method.
func runC08FileHelpers(firstID int) {
	type fh struct {
		name string
		run  func(f hackpadfs.File) error
	}
	helpers := []fh{
		{"ChmodFile", func(f hackpadfs.File) error { return hackpadfs.ChmodFile(f, 0o600) }},
		{"ChownFile", func(f hackpadfs.File) error { return hackpadfs.ChownFile(f, 0, 0) }},
		{"ChtimesFile", func(f hackpadfs.File) error { return hackpadfs.ChtimesFile(f, time.Unix(5, 0), time.Unix(5, 0)) }},
		{"ReadAtFile", func(f hackpadfs.File) error { _, err := hackpadfs.ReadAtFile(f, make([]byte, 2), 1); return err }},
		{"WriteFile", func(f hackpadfs.File) error { _, err := hackpadfs.WriteFile(f, []byte{9, 9}); return err }},
		{"WriteAtFile", func(f hackpadfs.File) error { _, err := hackpadfs.WriteAtFile(f, []byte{9}, 1); return err }},
		{"ReadDirFile", func(f hackpadfs.File) error { _, err := hackpadfs.ReadDirFile(f, -1); return err }},
		{"SeekFile", func(f hackpadfs.File) error { _, err := hackpadfs.SeekFile(f, 1, 0); return err }},
		{"SyncFile", func(f hackpadfs.File) error { return hackpadfs.SyncFile(f) }},
		{"TruncateFile", func(f hackpadfs.File) error { return hackpadfs.TruncateFile(f, 1) }},
	}
	id := firstID
	for _, h := range helpers {
		for variant := 0; variant < 2; variant++ {
			fs := newMem()
			_ = hackpadfs.WriteFullFile(fs, "f", []byte{1, 2, 3, 4}, 0o644)
			before := Snapshot(fs, []string{".", "f"})
			f, err := hackpadfs.OpenFile(fs, "f", hackpadfs.FlagReadWrite, 0)
			if err != nil {
				panic(err)
			}
			c := &Case{ID: id, Kind: "filehelper/" + h.name, Trivial: true}
			id++
			c.Cells = []string{"filehelper/" + h.name}
			var herr error
			func() {
				defer func() {
					if e := recover(); e != nil {
						herr = fmt.Errorf("panic: %v", e)
					}
				}()
				herr = h.run(minFile{f, variant == 1})
			}()
			c.Text = []string{fmt.Sprintf("%s on a handle exposing Read/Stat/Close only (Stat fails: %v) -> %v", h.name, variant == 1, herr)}
			switch {
			case herr == nil:
				c.fail(c.Text[0]+": reported success for something the handle cannot do", "filehelper:"+h.name+":ok")
			case strings.HasPrefix(herr.Error(), "panic:"):
				c.fail(c.Text[0]+": panicked", "filehelper:"+h.name+":panic")
			case variant == 0 && !errors.Is(herr, hackpadfs.ErrNotImplemented):
				c.fail(c.Text[0]+": the error does not match ErrNotImplemented", "filehelper:"+h.name+":class")
			}
			_ = f.Close()
			if d := snapDiffExact(before, Snapshot(fs, []string{".", "f"})); d != "" && h.name != "ChtimesFile" {
				c.fail(c.Text[0]+": changed the file: "+d, "filehelper:"+h.name+":changed")
			}
			emit(c)
		}
	}
}

// mem.FS has no Sub of its own: hackpadfs.Sub on it builds the generic view, which exposes Open and a Mount that
// TRANSLATES names -- the capability subset "MountFS only, with a non-identity mount".

// runC08Nested: every helper through two nested generic views, Sub(Sub(fs, "a"), "b"), against the same helper applied
// directly at "a/b/<name>": same result, same final state.  (The second Sub goes through the helper's MountFS branch.)
func runC08Nested(r *Rng, firstID int) {
	helpers := []string{"ReadFile", "WriteFullFile", "Stat", "ReadDir", "Mkdir", "MkdirAll", "Remove", "RemoveAll", "Chmod", "Chtimes", "Create", "OpenFile"}
	names := []string{"f", "nf", "d", ".", "d/g", "b", "a"}
	mk := func() hackpadfs.FS {
		fs := newMem()
		for _, d := range []string{"a", "a/b", "a/b/d", "b", "b/d", "a/b/b", "a/b/a"} {
			_ = hackpadfs.Mkdir(fs, d, 0o755)
		}
		_ = hackpadfs.WriteFullFile(fs, "a/b/f", []byte("inner"), 0o644)
		_ = hackpadfs.WriteFullFile(fs, "b/f", []byte("outer"), 0o600)
		_ = hackpadfs.WriteFullFile(fs, "a/f", []byte("middle"), 0o640)
		_ = hackpadfs.WriteFullFile(fs, "a/b/d/g", []byte("g"), 0o644)
		return fs
	}
	cands := candidatePaths([]string{"a", "b", "d", "f", "nf", "g"}, 4)
	id := firstID
	for _, h := range helpers {
		for _, name := range names {
			refFS, implFS := mk(), mk()
			v1, err := hackpadfs.Sub(implFS, "a")
			c := &Case{ID: id, Kind: "nested/" + h, Trivial: true}
			id++
			c.Cells = []string{"nested/" + h}
			if err != nil {
				c.fail(fmt.Sprintf("[nested] Sub(fs without SubFS, %q) failed: %v", "a", err), "nested:setup")
				emit(c)
				continue
			}
			v2, err := hackpadfs.Sub(v1, "b")
			if err != nil {
				c.fail(fmt.Sprintf("[nested] Sub(Sub(fs, %q), %q) failed although a/b is a directory: %v", "a", "b", err), "nested:setup2")
				emit(c)
				continue
			}
			arg := Op{P: name, Perm: 0o641, Data: []byte("new"), T: 55, Flag: fRDWR | fCREATE}
			direct := arg
			direct.P = "a/b/" + name
			if name == "." {
				direct.P = "a/b"
			}
			want := callHelper(refFS, h, direct)
			got := callHelper(v2, h, arg)
			c.Text = []string{fmt.Sprintf("[nested] %s(%q) through Sub(Sub(fs,\"a\"),\"b\"): %s   | directly at %q: %s", h, name, got, direct.P, want)}
			switch {
			case got.Kind == "panic":
				c.fail(c.Text[0]+": panicked", "nested:"+h+":panic")
			case got.failed() != want.failed() || (!got.failed() && obsData(got) != obsData(want) && !(h == "Stat" && name == ".")):
				c.fail(c.Text[0]+": the result through the nested views differs from the direct one", "nested:"+h+":result")
			default:
				if d := snapDiffExact(Snapshot(refFS, cands), Snapshot(implFS, cands)); d != "" {
					c.fail(c.Text[0]+": the final state differs from the direct call's: "+d, "nested:"+h+":state")
				}
			}
			emit(c)
		}
	}
}

func obsData(o Obs) string {
	switch o.Kind {
	case "info":
		d, p := kindPerm(o.Mode)
		if o.Mode&uint32(gofs.ModeSymlink) != 0 {
			return fmt.Sprintf("info %s symlink", o.Name) // (its size is the length of the target's OS path: differs per temp dir)
		}
		if d {
			return fmt.Sprintf("info dir %o", p) // a directory's name (the root's differs per temp dir) and size are not compared
		}
		return fmt.Sprintf("info %s %v %o %d", o.Name, d, p, o.Size)
	case "entries":
		var s []string
		for _, e := range o.Entries {
			d, _ := kindPerm(e.Mode)
			s = append(s, fmt.Sprintf("%s:%v", e.Name, d))
		}
		return strings.Join(s, ",")
	case "bytes":
		return fmt.Sprint(o.Bytes)
	case "ok":
		return "ok " + o.Name // (Create: what the returned handle can do)
	}
	return o.Kind
}

// c08ModelOp maps a helper call onto the model's operation alphabet.
func c08ModelOp(h string, arg Op) (Op, bool) {
	kind, ok := map[string]string{"Mkdir": "mkdir", "MkdirAll": "mkdirall", "Remove": "remove", "RemoveAll": "removeall", "Rename": "rename", "Stat": "stat",
		"Chmod": "chmod", "Chtimes": "chtimes", "ReadDir": "readdir", "ReadFile": "readfile", "WriteFullFile": "writefile", "OpenFile": "openclose"}[h]
	if !ok {
		return arg, false
	}
	arg.Kind = kind
	return arg, true
}
