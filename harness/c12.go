package main

import (
	"archive/tar"
	"bytes"
	"context"
	"fmt"
	gofs "io/fs"
	"os"
	"path"
	"sort"
	"strings"
	"time"

	"github.com/hack-pad/hackpadfs"
	"github.com/hack-pad/hackpadfs/mem"
	hpos "github.com/hack-pad/hackpadfs/os"
	hptar "github.com/hack-pad/hackpadfs/tar"
)

func init() { commands["C12"] = runC12 }

type tEntry struct {
	name  string // as spelled in the archive
	isDir bool
	perm  uint32
	data  []byte
	// noSlash: a directory entry written without the trailing slash archivers usually add (its type flag says what it is)
	noSlash bool
}

func buildTar(es []tEntry) []byte {
	var buf bytes.Buffer
	w := tar.NewWriter(&buf)
	for _, e := range es {
		h := &tar.Header{Name: e.name, Mode: int64(e.perm), Format: tar.FormatPAX}
		if e.isDir {
			h.Typeflag = tar.TypeDir
			if !strings.HasSuffix(h.Name, "/") && !e.noSlash {
				h.Name += "/"
			}
		} else {
			h.Typeflag = tar.TypeReg
			h.Size = int64(len(e.data))
		}
		if err := w.WriteHeader(h); err != nil {
			panic(err)
		}
		if !e.isDir {
			if _, err := w.Write(e.data); err != nil {
				panic(err)
			}
		}
	}
	if err := w.Close(); err != nil {
		panic(err)
	}
	return buf.Bytes()
}

func resolveRef(name string) string {
	p := strings.TrimPrefix(path.Clean(name), "/")
	if p == "" {
		p = "."
	}
	return p
}

// minimal destination: OpenFile + Chmod + Mkdir only
type tarMinimal struct{ fs *mem.FS }

func (m tarMinimal) Open(name string) (hackpadfs.File, error) { return m.fs.Open(name) }
func (m tarMinimal) OpenFile(name string, flag int, perm hackpadfs.FileMode) (hackpadfs.File, error) {
	return m.fs.OpenFile(name, flag, perm)
}
func (m tarMinimal) Chmod(name string, mode hackpadfs.FileMode) error { return m.fs.Chmod(name, mode) }
func (m tarMinimal) Mkdir(name string, perm hackpadfs.FileMode) error { return m.fs.Mkdir(name, perm) }

func spell(r *Rng, p string) string {
	switch r.Intn(8) {
	case 0:
		return "./" + p
	case 1:
		return "/" + p
	case 2:
		return strings.Replace(p, "/", "//", 1)
	case 3:
		return p + "/."
	case 4:
		if strings.Contains(p, "/") {
			i := strings.Index(p, "/")
			return p[:i] + "/./" + p[i+1:]
		}
	case 5:
		if strings.Contains(p, "/") {
			i := strings.Index(p, "/")
			return p[:i] + "/x/../" + p[i+1:]
		}
	}
	return p
}

func genArchive(r *Rng, thorough bool) (es []tEntry, many bool) {
	used := map[string]bool{}
	isFile := map[string]bool{}
	dirs := []string{"."}
	n := r.Range(1, 6)
	if r.Intn(12) == 0 {
		n = r.Range(90, 130) // more small files than the small-buffer pool holds (81)
		many = true
	}
	names := nsNames
	for i := 0; len(es) < n && i < n*5; i++ {
		d := dirs[r.Intn(len(dirs))]
		nm := names[r.Intn(len(names))]
		if many {
			nm = fmt.Sprintf("f%d", i)
		} else if r.Intn(8) == 0 {
			// ordinary names that merely LOOK like an escape or a hidden entry
			nm = []string{"..data", "...", "..a", ".h", "a..", "..."}[r.Intn(6)]
		}
		p := joinP(d, nm)
		// also create implicit parents: sometimes pick a deeper path whose parents are not entries
		if r.Intn(4) == 0 && !many {
			p = joinP(p, names[r.Intn(len(names))])
		}
		if used[p] || depthOf(p) > 4 {
			continue
		}
		bad := false
		for a := parentOf(p); a != "."; a = parentOf(a) {
			if isFile[a] {
				bad = true
			}
		}
		if bad {
			continue
		}
		// an explicit directory entry may come after its children; never a file where a directory is implied
		implied := false
		for q := range used {
			if strings.HasPrefix(q, p+"/") {
				implied = true
			}
		}
		used[p] = true
		if (r.Intn(3) == 0 || implied) && !many {
			es = append(es, tEntry{name: spell(r, p), isDir: true, perm: []uint32{0o755, 0o700, 0o750, 0o777, 0o555}[r.Intn(5)], noSlash: r.Intn(3) == 0})
			dirs = append(dirs, p)
		} else {
			var sz int
			switch r.Pick(6, 3, 1) {
			case 0:
				sz = r.Range(0, 40)
			case 1:
				sz = []int{0, 1, 511, 512, 513, 1024}[r.Intn(6)]
			default:
				sz = []int{150*1024 - 1, 150 * 1024, 150*1024 + 1}[r.Intn(3)]
				if thorough && r.Intn(4) == 0 {
					sz = 4*1024*1024 + 7
				}
			}
			data := make([]byte, sz)
			for k := range data {
				data[k] = byte(k*3 + i*17 + 1)
			}
			es = append(es, tEntry{name: spell(r, p), perm: perms[r.Intn(len(perms))], data: data})
			isFile[p] = true
		}
	}
	// an entry for the root itself (what `tar -C dir -cf x.tar .` writes): its permission bits are the root's
	if r.Intn(4) == 0 && !many {
		es = append(es, tEntry{name: []string{"./", ".", "/", "a/.."}[r.Intn(4)], isDir: true, perm: []uint32{0o755, 0o700, 0o750, 0o711, 0o555}[r.Intn(5)]})
	}
	// entry order: children before parents happens by shuffling
	for i := len(es) - 1; i > 0; i-- {
		j := r.Intn(i + 1)
		es[i], es[j] = es[j], es[i]
	}
	return es, many
}

type logical struct {
	isDir bool
	perm  uint32
	data  []byte
	fixed bool // perm given by an entry (else an implied ancestor: 0700)
}

func logicalTree(es []tEntry) map[string]logical {
	t := map[string]logical{}
	for _, e := range es {
		p := resolveRef(e.name)
		if p == "." {
			continue
		}
		if e.isDir {
			t[p] = logical{isDir: true, perm: e.perm & 0o777, fixed: true}
		} else {
			t[p] = logical{perm: e.perm & 0o777, data: e.data, fixed: true}
		}
		for a := parentOf(p); a != "."; a = parentOf(a) {
			if _, ok := t[a]; !ok {
				t[a] = logical{isDir: true, perm: 0o700}
			}
		}
	}
	return t
}

// walkTree lists everything reachable through Open alone.
func walkTree(fs hackpadfs.FS) (map[string]SnapEntry, error) {
	out := map[string]SnapEntry{}
	var walk func(dir string) error
	walk = func(dir string) error {
		es, err := hackpadfs.ReadDir(fs, dir)
		if err != nil {
			return err
		}
		for _, e := range es {
			p := joinP(dir, e.Name())
			info, err := hackpadfs.Stat(fs, p)
			if err != nil {
				return err
			}
			se := SnapEntry{Path: p, Mode: uint32(info.Mode())}
			if info.IsDir() {
				if err := walk(p); err != nil {
					return err
				}
			} else {
				b, err := hackpadfs.ReadFile(fs, p)
				if err != nil {
					return err
				}
				se.Bytes = b
			}
			out[p] = se
		}
		return nil
	}
	return out, walk(".")
}

func runC12(r *Rng, n int, replay string) {
	thorough := os.Getenv("VERIF_TIER") == "thorough"
	for id := 0; id < n; id++ {
		c := &Case{ID: id}
		escape := r.Intn(10) == 0
		es, many := genArchive(r, thorough)
		if escape {
			bad := []string{"../x", "a/../../x", "../d/e", "a/b/../../../etc/passwd", ".."}[r.Intn(5)]
			at := r.Intn(len(es) + 1)
			e := tEntry{name: bad, perm: 0o644, data: []byte{1, 2, 3}}
			es = append(es[:at], append([]tEntry{e}, es[at:]...)...)
		}
		destKind := []string{"default", "mem", "minimal", "os"}[r.Intn(4)]
		var opts hptar.ReaderFSOptions
		var outer string
		cleanup := func() {}
		switch destKind {
		case "mem":
			opts.UnarchiveFS = newMem().(*mem.FS)
		case "minimal":
			opts.UnarchiveFS = tarMinimal{newMem().(*mem.FS)}
		case "os":
			dir, err := os.MkdirTemp("", "hpverif-tar-")
			if err != nil {
				panic(err)
			}
			outer = dir
			_ = os.Mkdir(dir+"/inner", 0o777)
			sub, _ := hpos.NewFS().Sub(strings.TrimPrefix(dir+"/inner", "/"))
			opts.UnarchiveFS = sub.(*hpos.FS)
			cleanup = func() { _ = chmodAll(dir); _ = os.RemoveAll(dir) }
		}
		var names []string
		for _, e := range es {
			if e.isDir {
				names = append(names, fmt.Sprintf("%s/(%o)", e.name, e.perm))
			} else {
				names = append(names, fmt.Sprintf("%s(%d bytes,%o)", e.name, len(e.data), e.perm))
			}
		}
		hdr := fmt.Sprintf("archive %v into %s destination", names, destKind)
		if len(hdr) > 900 {
			hdr = hdr[:900] + "..."
		}
		c.Text = []string{hdr}
		c.Cells = []string{fmt.Sprintf("%s/escape=%v/many=%v", destKind, escape, many)}
		tfs, err := hptar.NewReaderFS(context.Background(), bytes.NewReader(buildTar(es)), opts)
		if err != nil {
			c.fail(hdr+": NewReaderFS failed: "+err.Error(), "new")
			emit(c)
			cleanup()
			continue
		}
		select {
		case <-tfs.Done():
		case <-time.After(30 * time.Second):
			c.fail(hdr+": unpacking did not finish", "hang")
			emit(c)
			cleanup()
			continue
		}
		uerr := tfs.UnarchiveErr()
		if escape && uerr != nil && destKind != "os" {
			// the failure must not depend on how the background writers are scheduled: unpack the same archive again
			for rep := 0; rep < 5 && uerr != nil; rep++ {
				o2 := hptar.ReaderFSOptions{}
				if destKind == "mem" {
					o2.UnarchiveFS = newMem().(*mem.FS)
				} else if destKind == "minimal" {
					o2.UnarchiveFS = tarMinimal{newMem().(*mem.FS)}
				}
				t2, err2 := hptar.NewReaderFS(context.Background(), bytes.NewReader(buildTar(es)), o2)
				if err2 != nil {
					break
				}
				<-t2.Done()
				uerr = t2.UnarchiveErr()
			}
		}
		got, werr := walkTree(tfs)
		switch {
		case escape:
			if uerr == nil {
				c.fail(hdr+": an entry resolving outside the root did not make unpacking fail", "escape:no-error")
			}
			if outer != "" {
				// nothing may appear next to the destination root
				ents, _ := os.ReadDir(outer)
				for _, e := range ents {
					if e.Name() != "inner" {
						c.fail(hdr+": created "+e.Name()+" outside the destination root", "escape:created-outside")
					}
				}
			}
		case uerr != nil:
			c.fail(hdr+": unpacking a well-formed archive failed: "+uerr.Error(), "unarchive-error")
		case werr != nil:
			c.fail(hdr+": cannot walk the unpacked tree: "+werr.Error(), "walk")
		default:
			want := logicalTree(es)
			var paths []string
			for p := range want {
				paths = append(paths, p)
			}
			sort.Strings(paths)
			for _, p := range paths {
				w := want[p]
				g, ok := got[p]
				if !ok {
					c.fail(fmt.Sprintf("%s: %q is missing", hdr, p), "missing")
					break
				}
				gd, gp := kindPerm(g.Mode)
				if gd != w.isDir {
					c.fail(fmt.Sprintf("%s: %q has the wrong kind", hdr, p), "kind")
					break
				}
				if gp != w.perm {
					sig := "perm"
					if !w.fixed {
						sig = "perm-implied"
					}
					c.fail(fmt.Sprintf("%s: %q has permission bits %04o, the archive says %04o", hdr, p, gp, w.perm), sig)
					break
				}
				if !w.isDir && !bytes.Equal(g.Bytes, w.data) {
					c.fail(fmt.Sprintf("%s: %q holds %d bytes that differ from the entry's %d bytes", hdr, p, len(g.Bytes), len(w.data)), "bytes")
					break
				}
			}
			// an entry for the root carries the root's permission bits (the last one wins)
			rootPerm := int64(-1)
			for _, e := range es {
				if e.isDir && resolveRef(e.name) == "." {
					rootPerm = int64(e.perm & 0o777)
				}
			}
			if rootPerm >= 0 && c.Oracle == "" {
				if info, err := hackpadfs.Stat(tfs, "."); err != nil {
					c.fail(hdr+": cannot stat the root: "+err.Error(), "root-stat")
				} else if int64(info.Mode().Perm()) != rootPerm {
					c.fail(fmt.Sprintf("%s: the root has permission bits %04o, its entry says %04o", hdr, info.Mode().Perm(), rootPerm), "perm-root")
				}
			}
			for p := range got {
				if _, ok := want[p]; !ok {
					c.fail(fmt.Sprintf("%s: %q exists but is not in the archive's logical tree", hdr, p), "extra")
					break
				}
			}
		}
		// model correspondence: small archives, in-memory destinations
		total := 0
		for _, e := range es {
			total += len(e.data)
		}
		if total <= 3000 && len(es) <= 12 && destKind != "os" && c.Oracle == "" {
			var esC []string
			for _, e := range es {
				nm := e.name
				if e.isDir && !strings.HasSuffix(nm, "/") {
					nm += "/"
				}
				if e.isDir {
					esC = append(esC, fmt.Sprintf("TDir %s %s", cStr(nm), cN(uint64(e.perm))))
				} else {
					esC = append(esC, fmt.Sprintf("TFile %s %s %s", cStr(nm), cN(uint64(e.perm)), cBytes(e.data)))
				}
			}
			var snap []SnapEntry
			if uerr == nil {
				snap = append(snap, SnapEntry{Path: "."})
				if info, err := hackpadfs.Stat(tfs, "."); err == nil {
					snap[0].Mode = uint32(info.Mode())
					snap[0].MT = -1
				}
				var ps []string
				for p := range got {
					ps = append(ps, p)
				}
				sort.Strings(ps)
				for _, p := range ps {
					e := got[p]
					e.MT = -1
					snap = append(snap, e)
				}
			}
			c.Coq = fmt.Sprintf("(%s, %s, %s)", cList(esC), cBool(uerr != nil), snapCoqFS(snap))
		}
		emit(c)
		cleanup()
	}
	// resolvePath vs the model on name spellings
	for k := 0; k < 150; k++ {
		alpha := []string{"a", "b", ".", "..", "", "ab"}
		var parts []string
		for i := r.Range(1, 5); i > 0; i-- {
			parts = append(parts, alpha[r.Intn(len(alpha))])
		}
		s := strings.Join(parts, "/")
		if r.Intn(3) == 0 {
			s = "/" + s
		}
		rc := &Case{ID: n + k, Kind: "resolve", Trivial: true, Check: "resolve_check", CType: "(str * str)%type"}
		rc.Text = []string{fmt.Sprintf("resolvePath(%q) = %q", s, hptar.ResolvePathVerif(s))}
		rc.Coq = cPair(cStr(s), cStr(hptar.ResolvePathVerif(s)))
		if hptar.ResolvePathVerif(s) != resolveRef(s) {
			rc.fail(rc.Text[0]+" differs from path.Clean", "resolve")
		}
		emit(rc)
	}
	_ = gofs.ModeDir
}
