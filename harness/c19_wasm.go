//go:build js && wasm

package main

// The typed-array blob (indexeddb/idbblob) under GOOS=js GOARCH=wasm, run by node: this file is compiled together with
// main.go, util.go and c19.go only (see vlib/common.py build_wasm), and registers the stream "C19wasm".
//
// Oracle = the property's []byte reference (applyRef): for in-range arguments lengths and bytes are the reference's
// (views alias, slices and Bytes() are copies); out-of-range arguments must not panic and must not modify any blob.
// What is NOT compared: aliasing between a blob and its views after one of them has been resized (Grow/Truncate) --
// the reference is a Go slice there and its answer depends on spare capacity -- the history is cut at that point,
// after the resized blob's own contents have been checked.

import (
	"bytes"
	"fmt"
	"strings"
	"syscall/js"

	"github.com/hack-pad/hackpadfs/indexeddb/idbblob"
	"github.com/hack-pad/hackpadfs/keyvalue/blob"
)

func init() {
	newBlobImpl = func(d []byte, i int) blob.Blob {
		switch i % 3 {
		case 0: // a JS array, no Go-side bytes yet
			return idbblob.FromBlob(blob.NewBytes(d))
		case 1: // a JS array whose bytes have been read once (the Go-side cache is filled)
			b := idbblob.FromBlob(blob.NewBytes(d))
			_ = b.Bytes()
			return b
		default: // made empty and filled through Set
			b, err := idbblob.NewLength(len(d))
			if err != nil {
				panic(err)
			}
			if len(d) > 0 {
				if _, err := b.Set(blob.NewBytes(d), 0); err != nil {
					panic(err)
				}
			}
			return b
		}
	}
	commands["C19wasm"] = runC19Wasm
}

// jsBytes reads the blob's JS array directly (not through Bytes(), which answers from the Go-side copy once there is one).
func jsBytes(b blob.Blob) (out []byte, ok bool) {
	defer func() {
		if recover() != nil {
			ok = false
		}
	}()
	w, isW := b.(interface{ JSValue() js.Value })
	if !isW {
		return nil, false
	}
	v := w.JSValue()
	out = make([]byte, v.Length())
	js.CopyBytesToGo(out, v)
	return out, true
}

// execTyped runs a history on idbblob.  sparse: the contents of the blobs are read only where the history says so and
// at the end (so most blobs have no Go-side cache while they are operated on); otherwise after every op.
func execTyped(ops []bOp, sparse bool) (text []string, oracle, sig string, cells []string, opsC, obsC []string) {
	var bl []blob.Blob
	var rl []*refBlob
	var group []int // alias group of each reference blob
	ngroups := 0
	cellSet := map[string]bool{}
	defer func() {
		for c := range cellSet {
			cells = append(cells, c)
		}
	}()
	snapAll := func() (snap [][]byte, pan interface{}) {
		defer func() { pan = recover() }()
		for _, b := range bl {
			snap = append(snap, append([]byte(nil), b.Bytes()...))
		}
		return
	}
	for i, o := range ops {
		if (o.kind != "new" && o.b >= len(rl)) || (o.kind == "set" && o.src >= len(rl)) {
			continue
		}
		fail := func(rng, f string, a ...interface{}) {
			if oracle == "" {
				oracle = fmt.Sprintf("typed-array blob, op %d (%s): ", i, o.text()) + fmt.Sprintf(f, a...)
				sig = "typed:" + o.kind + ":" + rng + ":" + strings.SplitN(f, " ", 2)[0]
			}
		}
		// stale(j, want): the blob's JS array holds what the reference holds, only its Go-side copy (what Bytes() answers
		// from) does not, and the blob has alias relatives: the write went through another member of its alias group,
		// whose Go-side copy is a different one (the recorded finding)
		stale := func(j int, want []byte) bool {
			if j >= len(group) || j >= len(bl) {
				return false
			}
			members := 0
			for _, g := range group {
				if g == group[j] {
					members++
				}
			}
			jsb, ok := jsBytes(bl[j])
			return members > 1 && ok && bytes.Equal(jsb, want)
		}
		failBlob := func(rng string, j int, got, want []byte, f string, a ...interface{}) {
			if stale(j, want) {
				if oracle == "" {
					oracle = fmt.Sprintf("typed-array blob, op %d (%s): blob %d: Bytes() answers %v from its Go-side copy, its JS array and the reference hold %v (written through an alias)", i, o.text(), j, got, want)
					sig = "typed:alias:stale-go-bytes"
				}
				return
			}
			fail(rng, f, a...)
		}
		before := make([][]byte, len(rl))
		for j, b := range rl {
			before[j] = append([]byte(nil), b.b...)
		}
		nBefore := len(bl)
		var res string
		var failed bool
		var ret int64
		var data []byte
		var pan interface{}
		func() {
			defer func() { pan = recover() }()
			res, failed, ret, data = applyImpl(&bl, o)
		}()
		inRange, rret, rdata := applyRef(&rl, o)
		rng := "in"
		if !inRange {
			rng = "oob"
		}
		if pan != nil {
			text = append(text, fmt.Sprintf("%s -> PANIC %v", o.text(), pan))
			fail(rng, "panicked: %v", pan)
			return
		}
		text = append(text, o.text()+" -> "+res)
		if inRange {
			// for the model of the JS side (Blob/Typed.v): the result and the JS array of every handle, read directly
			cres := res
			if o.kind == "bytes" {
				if jb, ok := jsBytes(bl[o.b]); ok {
					cres = "RBytes " + cBytes(jb)
				}
			}
			snap := make([]string, 0, len(bl))
			okAll := true
			for _, b := range bl {
				jb, ok := jsBytes(b)
				okAll = okAll && ok
				snap = append(snap, cBytes(jb))
			}
			if okAll {
				opsC = append(opsC, o.coq())
				obsC = append(obsC, cPair(cres, cList(snap)))
			}
		}
		cls := "ok"
		if failed {
			cls = "err"
		}
		cellSet["typed/"+o.kind+"/"+rng+"/"+cls] = true
		if !inRange {
			// may be refused or accepted, but nothing that existed may change
			bl = bl[:nBefore]
			snap, p := snapAll()
			if p != nil {
				fail(rng, "panicked afterwards: Bytes() panicked: %v", p)
				return
			}
			for j := range before {
				if !bytes.Equal(before[j], snap[j]) {
					// (in the sparse mode this is the first look at the contents since earlier writes: a Go-side copy gone
					// stale through an alias shows here too and is told apart by the blob's JS array)
					failBlob(rng, j, snap[j], before[j], "modified blob %d (%v -> %v) although its arguments are out of range", j, before[j], snap[j])
					break
				}
			}
			return // cut: the two worlds need not be aligned any more
		}
		switch o.kind {
		case "new":
			group = append(group, ngroups)
			ngroups++
		case "view":
			group = append(group, group[o.b])
		case "slice":
			group = append(group, ngroups)
			ngroups++
		}
		quirk := o.kind == "set" && failed && len(before[o.b]) == 0 && o.x == 0
		if failed {
			if !quirk {
				fail(rng, "rejected in-range arguments")
			}
			return
		}
		if (o.kind == "set" || o.kind == "len") && ret != rret {
			fail(rng, "returned %d, reference %d", ret, rret)
			return
		}
		if o.kind == "bytes" && !bytes.Equal(data, rdata) {
			failBlob(rng, o.b, data, rdata, "bytes %v, reference %v", data, rdata)
			return
		}
		if o.kind == "grow" || o.kind == "trunc" {
			relatives := 0
			for j := range group {
				if group[j] == group[o.b] {
					relatives++
				}
			}
			if relatives > 1 {
				var got []byte
				var p interface{}
				func() {
					defer func() { p = recover() }()
					got = bl[o.b].Bytes()
				}()
				want := before[o.b]
				if o.kind == "grow" {
					want = append(append([]byte(nil), want...), make([]byte, o.x)...)
				} else if int64(len(want)) >= o.x {
					want = want[:o.x]
				}
				if p != nil {
					fail(rng, "panicked afterwards: Bytes() panicked: %v", p)
				} else if bl[o.b].Len() != len(want) {
					fail(rng, "resized blob has Len %d, reference %d", bl[o.b].Len(), len(want))
				} else if !bytes.Equal(got, want) {
					failBlob(rng, o.b, got, want, "resized blob holds %v (Len %d), reference %v", got, bl[o.b].Len(), want)
				}
				return // cut: aliasing after a resize is not compared
			}
		}
		if !sparse || i == len(ops)-1 {
			snap, p := snapAll()
			if p != nil {
				fail(rng, "panicked afterwards: Bytes() panicked: %v", p)
				return
			}
			if len(snap) != len(rl) {
				fail(rng, "count of blobs differs")
				return
			}
			for j, b := range rl {
				if bl[j].Len() != len(b.b) {
					fail(rng, "blob %d has Len %d, reference %d", j, bl[j].Len(), len(b.b))
					return
				}
				if !bytes.Equal(b.b, snap[j]) {
					failBlob(rng, j, snap[j], b.b, "blob %d holds %v (Len %d), reference %v", j, snap[j], bl[j].Len(), b.b)
					return
				}
			}
		}
	}
	return
}

func runC19Wasm(r *Rng, n int, replay string) {
	for id := 0; id < n; id++ {
		ops := genC19(r)
		if id%2 == 1 {
			// in-range histories only: drop the ops the reference calls out of range
			var rl []*refBlob
			var kept []bOp
			for _, o := range ops {
				if (o.kind != "new" && o.b >= len(rl)) || (o.kind == "set" && o.src >= len(rl)) {
					continue
				}
				if in, _, _ := applyRef(&rl, o); in {
					kept = append(kept, o)
				}
			}
			ops = kept
		}
		sparse := id%4 >= 2
		text, oracle, sig, cells, opsC, obsC := execTyped(ops, sparse)
		kind := "typed-array/dense"
		if sparse {
			kind = "typed-array/sparse"
		}
		c := &Case{ID: id, Kind: kind, Text: text, Oracle: oracle, Sig: sig, Cells: cells, Trivial: true}
		if id%2 == 1 && len(opsC) >= 3 {
			// in-range histories: what the JS arrays held after every step, replayed through the model of the JS side
			c.Trivial = false
			c.Coq = cPair(cList(opsC), cList(obsC))
			c.CType, c.Check = "C19typed_case", "C19typed_check"
		}
		emit(c)
	}
}
