// Package racedev: free-running goroutines on ONE in-memory file system, each with its own handles, built with the
// race detector (C15: no data race, panic or deadlock; a ReadAt never sees half of one WriteAt).
package racedev

import (
	"bytes"
	"fmt"
	"os"
	"strconv"
	"sync"
	"sync/atomic"
	"testing"
	"time"

	"github.com/hack-pad/hackpadfs"
	"github.com/hack-pad/hackpadfs/mem"
)

func budget() time.Duration {
	if ms, err := strconv.Atoi(os.Getenv("VERIF_RACE_MS")); err == nil && ms > 0 {
		return time.Duration(ms) * time.Millisecond
	}
	return 1500 * time.Millisecond
}

func describe(info hackpadfs.FileInfo) string {
	if info == nil {
		return "<nil>"
	}
	return fmt.Sprintf("%v size %d", info.Mode(), info.Size())
}

func TestParallel(t *testing.T) {
	fs, err := mem.NewFS()
	if err != nil {
		t.Fatal(err)
	}
	const size = 64 * 1024
	if err := hackpadfs.WriteFullFile(fs, "shared", bytes.Repeat([]byte{'A'}, size), 0o644); err != nil {
		t.Fatal(err)
	}
	for _, d := range []string{"g0", "g1", "g2", "common"} {
		if err := hackpadfs.Mkdir(fs, d, 0o755); err != nil {
			t.Fatal(err)
		}
	}
	stop := make(chan struct{})
	var wg sync.WaitGroup
	var torn, panics int64
	var firstProblem atomic.Value
	report := func(s string) {
		firstProblem.CompareAndSwap(nil, s)
	}
	run := func(name string, body func(round int)) {
		wg.Add(1)
		go func() {
			defer wg.Done()
			defer func() {
				if e := recover(); e != nil {
					atomic.AddInt64(&panics, 1)
					report(fmt.Sprintf("goroutine %s panicked: %v", name, e))
				}
			}()
			for round := 0; ; round++ {
				select {
				case <-stop:
					return
				default:
				}
				body(round)
			}
		}()
	}
	// one writer, two readers on the same file, each through its own handle
	run("writer", func(round int) {
		f, err := hackpadfs.OpenFile(fs, "shared", hackpadfs.FlagReadWrite, 0)
		if err != nil {
			report("writer: " + err.Error())
			return
		}
		defer f.Close()
		b := byte('A' + round%2)
		if _, err := hackpadfs.WriteAtFile(f, bytes.Repeat([]byte{b}, size), 0); err != nil {
			report("writer: " + err.Error())
		}
	})
	for i := 0; i < 2; i++ {
		run(fmt.Sprintf("reader%d", i), func(round int) {
			f, err := fs.Open("shared")
			if err != nil {
				report("reader: " + err.Error())
				return
			}
			defer f.Close()
			buf := make([]byte, size)
			n, _ := hackpadfs.ReadAtFile(f, buf, 0)
			for k := 1; k < n; k++ {
				if buf[k] != buf[0] {
					atomic.AddInt64(&torn, 1)
					report(fmt.Sprintf("torn read: byte 0 is %q, byte %d is %q (one ReadAt saw two different WriteAt calls)", buf[0], k, buf[k]))
					break
				}
			}
		})
	}
	// namespace work in private directories, and contended work in a common one
	for g := 0; g < 3; g++ {
		g := g
		run(fmt.Sprintf("ns%d", g), func(round int) {
			d := fmt.Sprintf("g%d", g)
			p := fmt.Sprintf("%s/f%d", d, round%5)
			_ = hackpadfs.WriteFullFile(fs, p, []byte{byte(round)}, 0o600)
			// (a look-up of three names in one transaction, then results about paths only this goroutine touches:
			// "unrelated paths behave as if the operations ran sequentially")
			deep := d + "/deep/er"
			if err := hackpadfs.MkdirAll(fs, deep, 0o755); err != nil {
				report(fmt.Sprintf("%s: MkdirAll(%s) in a private directory: %v", d, deep, err))
			}
			if info, err := hackpadfs.Stat(fs, p); err != nil || info.IsDir() || info.Size() != 1 {
				report(fmt.Sprintf("%s: Stat(%s) of the file this goroutine has just written (1 byte): %v, %v", d, p, describe(info), err))
			}
			if info, err := hackpadfs.Stat(fs, deep); err != nil || !info.IsDir() {
				report(fmt.Sprintf("%s: Stat(%s) of the directory this goroutine has just made: %v, %v", d, deep, describe(info), err))
			}
			if err := hackpadfs.Remove(fs, deep); err != nil {
				report(fmt.Sprintf("%s: Remove(%s): %v", d, deep, err))
			}
			if err := hackpadfs.Remove(fs, d+"/deep"); err != nil {
				report(fmt.Sprintf("%s: Remove(%s/deep): %v", d, d, err))
			}
			_ = hackpadfs.Rename(fs, p, p+"x")
			_, _ = hackpadfs.ReadDir(fs, d)
			_ = hackpadfs.Chmod(fs, p+"x", 0o640)
			_ = hackpadfs.Remove(fs, p+"x")
			c := fmt.Sprintf("common/c%d", round%3)
			_ = hackpadfs.Mkdir(fs, c, 0o755)
			_, _ = hackpadfs.ReadDir(fs, "common")
			_ = hackpadfs.Remove(fs, c)
		})
	}
	time.Sleep(budget())
	close(stop)
	finished := make(chan struct{})
	go func() { wg.Wait(); close(finished) }()
	select {
	case <-finished:
	case <-time.After(20 * time.Second):
		t.Fatalf("VERIF-DEADLOCK: goroutines did not finish 20 s after being told to stop")
	}
	if p := firstProblem.Load(); p != nil {
		t.Fatalf("VERIF-PROBLEM: %s (torn reads %d, panics %d)", p, torn, panics)
	}
	// private directories must be empty again and the shared file uniform
	for g := 0; g < 3; g++ {
		ents, err := hackpadfs.ReadDir(fs, fmt.Sprintf("g%d", g))
		if err != nil || len(ents) != 0 {
			t.Fatalf("VERIF-PROBLEM: private directory g%d is not empty after its goroutine finished: %v %v", g, ents, err)
		}
	}
}

// TestConcurrentShrinks: two goroutines, each with its own handle on one file, shrink it at the same moment to two
// different sizes.  Whatever the schedule, the file afterwards is what one of the two orders leaves: the smaller
// prefix, or the smaller prefix zero-extended to the larger size -- never bytes that the deeper shrink had removed.
func TestConcurrentShrinks(t *testing.T) {
	fs, err := mem.NewFS()
	if err != nil {
		t.Fatal(err)
	}
	orig := []byte("abcdefghijklmnop")
	deadline := time.Now().Add(budget() * 2 / 3)
	trials, bad := 0, ""
	for time.Now().Before(deadline) && bad == "" {
		trials++
		if err := hackpadfs.WriteFullFile(fs, "t", orig, 0o644); err != nil {
			t.Fatal(err)
		}
		s1 := int64(trials % len(orig))
		s2 := int64((trials / 3) % len(orig))
		if s1 == s2 {
			continue
		}
		start := make(chan struct{})
		var wg sync.WaitGroup
		for _, s := range []int64{s1, s2} {
			s := s
			f, err := hackpadfs.OpenFile(fs, "t", hackpadfs.FlagReadWrite, 0)
			if err != nil {
				t.Fatal(err)
			}
			wg.Add(1)
			go func() {
				defer wg.Done()
				defer f.Close()
				<-start
				if err := hackpadfs.TruncateFile(f, s); err != nil {
					bad = fmt.Sprintf("Truncate(%d): %v", s, err)
				}
			}()
		}
		close(start)
		wg.Wait()
		got, err := hackpadfs.ReadFile(fs, "t")
		if err != nil {
			t.Fatal(err)
		}
		lo, hi := s1, s2
		if lo > hi {
			lo, hi = hi, lo
		}
		a := orig[:lo]                                                         // larger first, then smaller
		b := append(append([]byte(nil), orig[:lo]...), make([]byte, hi-lo)...) // smaller first, then the larger one grows it again
		if !bytes.Equal(got, a) && !bytes.Equal(got, b) {
			bad = fmt.Sprintf("concurrent Truncate(%d) and Truncate(%d) of %q left %q: neither %q nor %q (trial %d)", s1, s2, orig, got, a, b, trials)
		}
	}
	if bad != "" {
		t.Fatalf("VERIF-PROBLEM: %s", bad)
	}
	t.Logf("%d trials", trials)
}

// TestConcurrentExtends: several goroutines, each with its own handle, grow one file at the same time (writes past the
// end, truncation upwards, appends) while others read it.  Which bytes win is not asserted here (growing is a
// check-then-act sequence, see the known findings): the race detector must stay silent and nothing may panic or hang.
func TestConcurrentExtends(t *testing.T) {
	fs, err := mem.NewFS()
	if err != nil {
		t.Fatal(err)
	}
	deadline := time.Now().Add(budget() / 2)
	var problem atomic.Value
	for round := 0; time.Now().Before(deadline) && problem.Load() == nil; round++ {
		if err := hackpadfs.WriteFullFile(fs, "g", bytes.Repeat([]byte{'x'}, 4096), 0o644); err != nil {
			t.Fatal(err)
		}
		start := make(chan struct{})
		var wg sync.WaitGroup
		body := []func(f hackpadfs.File){
			func(f hackpadfs.File) { _, _ = hackpadfs.WriteAtFile(f, bytes.Repeat([]byte{'A'}, 512), 8000) },
			func(f hackpadfs.File) { _ = hackpadfs.TruncateFile(f, 12000) },
			func(f hackpadfs.File) {
				_, _ = hackpadfs.SeekFile(f, 0, 2)
				_, _ = hackpadfs.WriteFile(f, bytes.Repeat([]byte{'B'}, 700))
			},
			func(f hackpadfs.File) { buf := make([]byte, 16000); _, _ = hackpadfs.ReadAtFile(f, buf, 0) },
			func(f hackpadfs.File) { _, _ = f.Stat() },
		}
		for i, b := range body {
			f, err := hackpadfs.OpenFile(fs, "g", hackpadfs.FlagReadWrite, 0)
			if err != nil {
				t.Fatal(err)
			}
			wg.Add(1)
			go func(i int, b func(hackpadfs.File), f hackpadfs.File) {
				defer wg.Done()
				defer f.Close()
				defer func() {
					if e := recover(); e != nil {
						problem.CompareAndSwap(nil, fmt.Sprintf("goroutine %d panicked: %v", i, e))
					}
				}()
				<-start
				b(f)
			}(i, b, f)
		}
		close(start)
		done := make(chan struct{})
		go func() { wg.Wait(); close(done) }()
		select {
		case <-done:
		case <-time.After(20 * time.Second):
			t.Fatalf("VERIF-DEADLOCK: concurrent extending operations did not finish")
		}
	}
	if p := problem.Load(); p != nil {
		t.Fatalf("VERIF-PROBLEM: %s", p)
	}
}
