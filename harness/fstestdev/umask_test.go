package fstestdev

import "syscall"

func syscallUmask(m int) int { return syscall.Umask(m) }
