// Package fstestdev runs the real fstest conformance suite against the reference file systems and
// against a catalogue of single-deviation wrappers around mem.FS (property C20). It must run under
// `go test` because the suite needs a *testing.T.
package fstestdev

import (
	"bytes"
	"errors"
	"fmt"
	"io"
	gofs "io/fs"
	"os"
	"strings"
	"testing"
	"time"

	"github.com/hack-pad/hackpadfs"
	"github.com/hack-pad/hackpadfs/fstest"
	"github.com/hack-pad/hackpadfs/mem"
	hpos "github.com/hack-pad/hackpadfs/os"
)

// devFS wraps mem.FS; exactly one hook is set per deviant.
type devFS struct {
	*mem.FS
	d *deviant
}

type deviant struct {
	name string
	// FS-level hooks: return handled=true to replace the real call's result
	mkdir    func(fs *mem.FS, name string, perm hackpadfs.FileMode) (error, bool)
	mkdirAll func(fs *mem.FS, name string, perm hackpadfs.FileMode) (error, bool)
	remove   func(fs *mem.FS, name string) (error, bool)
	rename   func(fs *mem.FS, o, n string) (error, bool)
	chmod    func(fs *mem.FS, name string, mode hackpadfs.FileMode) (error, bool)
	chtimes  func(fs *mem.FS, name string, a, m time.Time) (error, bool)
	openFile func(fs *mem.FS, name string, flag int, perm hackpadfs.FileMode) (hackpadfs.File, error, bool)
	stat     func(fs *mem.FS, name string) (hackpadfs.FileInfo, error, bool)
	mapErr   func(op string, err error) error
	// roWriteOK: Write on an open handle of a regular file that was opened read-only reports success
	roWriteOK bool
	// file-level hooks
	read     func(f hackpadfs.File, p []byte) (int, error, bool)
	write    func(f hackpadfs.File, p []byte) (int, error, bool)
	truncate func(f hackpadfs.File, size int64) (error, bool)
	fstat    func(f hackpadfs.File) (hackpadfs.FileInfo, error, bool)
	readDir  func(f hackpadfs.File, n int) ([]hackpadfs.DirEntry, error, bool)
	seek     func(f hackpadfs.File, off int64, wh int) (int64, error, bool)
	writeAt  func(f hackpadfs.File, p []byte, off int64) (int, error, bool)
	readAt   func(f hackpadfs.File, p []byte, off int64) (int, error, bool)
}

func (d *devFS) e(op string, err error) error {
	if err != nil && d.d.mapErr != nil {
		return d.d.mapErr(op, err)
	}
	return err
}

func (d *devFS) Open(name string) (hackpadfs.File, error) {
	return d.OpenFile(name, hackpadfs.FlagReadOnly, 0)
}
func (d *devFS) OpenFile(name string, flag int, perm hackpadfs.FileMode) (hackpadfs.File, error) {
	if d.d.openFile != nil {
		if f, err, ok := d.d.openFile(d.FS, name, flag, perm); ok {
			if f != nil {
				f = &devFile{f, d.d, flag&(hackpadfs.FlagWriteOnly|hackpadfs.FlagReadWrite) == 0}
			}
			return f, err
		}
	}
	f, err := d.FS.OpenFile(name, flag, perm)
	if err != nil {
		return nil, d.e("open", err)
	}
	return &devFile{f, d.d, flag&(hackpadfs.FlagWriteOnly|hackpadfs.FlagReadWrite) == 0}, nil
}
func (d *devFS) Mkdir(name string, perm hackpadfs.FileMode) error {
	if d.d.mkdir != nil {
		if err, ok := d.d.mkdir(d.FS, name, perm); ok {
			return err
		}
	}
	return d.e("mkdir", d.FS.Mkdir(name, perm))
}
func (d *devFS) MkdirAll(name string, perm hackpadfs.FileMode) error {
	if d.d.mkdirAll != nil {
		if err, ok := d.d.mkdirAll(d.FS, name, perm); ok {
			return err
		}
	}
	return d.e("mkdirall", d.FS.MkdirAll(name, perm))
}
func (d *devFS) Remove(name string) error {
	if d.d.remove != nil {
		if err, ok := d.d.remove(d.FS, name); ok {
			return err
		}
	}
	return d.e("remove", d.FS.Remove(name))
}
func (d *devFS) Rename(o, n string) error {
	if d.d.rename != nil {
		if err, ok := d.d.rename(d.FS, o, n); ok {
			return err
		}
	}
	return d.e("rename", d.FS.Rename(o, n))
}
func (d *devFS) Stat(name string) (hackpadfs.FileInfo, error) {
	if d.d.stat != nil {
		if info, err, ok := d.d.stat(d.FS, name); ok {
			return info, err
		}
	}
	info, err := d.FS.Stat(name)
	return info, d.e("stat", err)
}
func (d *devFS) Chmod(name string, mode hackpadfs.FileMode) error {
	if d.d.chmod != nil {
		if err, ok := d.d.chmod(d.FS, name, mode); ok {
			return err
		}
	}
	return d.e("chmod", d.FS.Chmod(name, mode))
}
func (d *devFS) Chtimes(name string, a, m time.Time) error {
	if d.d.chtimes != nil {
		if err, ok := d.d.chtimes(d.FS, name, a, m); ok {
			return err
		}
	}
	return d.e("chtimes", d.FS.Chtimes(name, a, m))
}

type devFile struct {
	hackpadfs.File
	d  *deviant
	ro bool // opened without write access
}

func (f *devFile) Read(p []byte) (int, error) {
	if f.d.read != nil {
		if n, err, ok := f.d.read(f.File, p); ok {
			return n, err
		}
	}
	return f.File.Read(p)
}
func (f *devFile) ReadAt(p []byte, off int64) (int, error) {
	if f.d.readAt != nil {
		if n, err, ok := f.d.readAt(f.File, p, off); ok {
			return n, err
		}
	}
	return hackpadfs.ReadAtFile(f.File, p, off)
}
func (f *devFile) Write(p []byte) (int, error) {
	if f.d.roWriteOK && f.ro {
		if info, err := f.File.Stat(); err == nil && !info.IsDir() {
			return len(p), nil // (a closed handle's Stat fails: it keeps failing)
		}
	}
	if f.d.write != nil {
		if n, err, ok := f.d.write(f.File, p); ok {
			return n, err
		}
	}
	return hackpadfs.WriteFile(f.File, p)
}
func (f *devFile) WriteAt(p []byte, off int64) (int, error) {
	if f.d.writeAt != nil {
		if n, err, ok := f.d.writeAt(f.File, p, off); ok {
			return n, err
		}
	}
	return hackpadfs.WriteAtFile(f.File, p, off)
}
func (f *devFile) Seek(off int64, wh int) (int64, error) {
	if f.d.seek != nil {
		if n, err, ok := f.d.seek(f.File, off, wh); ok {
			return n, err
		}
	}
	return hackpadfs.SeekFile(f.File, off, wh)
}
func (f *devFile) Truncate(size int64) error {
	if f.d.truncate != nil {
		if err, ok := f.d.truncate(f.File, size); ok {
			return err
		}
	}
	return hackpadfs.TruncateFile(f.File, size)
}
func (f *devFile) Stat() (hackpadfs.FileInfo, error) {
	if f.d.fstat != nil {
		if info, err, ok := f.d.fstat(f.File); ok {
			return info, err
		}
	}
	return f.File.Stat()
}
func (f *devFile) ReadDir(n int) ([]hackpadfs.DirEntry, error) {
	if f.d.readDir != nil {
		if es, err, ok := f.d.readDir(f.File, n); ok {
			return es, err
		}
	}
	return hackpadfs.ReadDirFile(f.File, n)
}
func (f *devFile) Chmod(mode hackpadfs.FileMode) error { return hackpadfs.ChmodFile(f.File, mode) }

type fakeInfo struct {
	hackpadfs.FileInfo
	size *int64
	mode *hackpadfs.FileMode
	name *string
}

func (i fakeInfo) Size() int64 {
	if i.size != nil {
		return *i.size
	}
	return i.FileInfo.Size()
}
func (i fakeInfo) Mode() hackpadfs.FileMode {
	if i.mode != nil {
		return *i.mode
	}
	return i.FileInfo.Mode()
}
func (i fakeInfo) Name() string {
	if i.name != nil {
		return *i.name
	}
	return i.FileInfo.Name()
}

func catalogue() []*deviant {
	var ds []*deviant
	add := func(d *deviant) { ds = append(ds, d) }
	// --- an operation silently does nothing ---
	add(&deviant{name: "mkdir-noop", mkdir: func(fs *mem.FS, n string, p hackpadfs.FileMode) (error, bool) { return nil, true }})
	add(&deviant{name: "mkdirall-noop", mkdirAll: func(fs *mem.FS, n string, p hackpadfs.FileMode) (error, bool) { return nil, true }})
	add(&deviant{name: "remove-noop", remove: func(fs *mem.FS, n string) (error, bool) {
		if _, err := fs.Stat(n); err != nil {
			return nil, false
		}
		return nil, true
	}})
	add(&deviant{name: "remove-always-nil", remove: func(fs *mem.FS, n string) (error, bool) { return nil, true }})
	// positional calls: the gap a write beyond the end leaves, the bytes and counts of WriteAt / ReadAt
	add(&deviant{name: "writeat-gap-not-zero", writeAt: func(f hackpadfs.File, p []byte, off int64) (int, error, bool) {
		info, err := f.Stat()
		if err != nil || off <= info.Size() || len(p) == 0 {
			return 0, nil, false
		}
		gap := bytes.Repeat([]byte{0xff}, int(off-info.Size()))
		if _, err := hackpadfs.WriteAtFile(f, gap, info.Size()); err != nil {
			return 0, err, true
		}
		n, err := hackpadfs.WriteAtFile(f, p, off)
		return n, err, true
	}})
	add(&deviant{name: "writeat-drops-last-byte", writeAt: func(f hackpadfs.File, p []byte, off int64) (int, error, bool) {
		if len(p) < 2 {
			return 0, nil, false
		}
		_, err := hackpadfs.WriteAtFile(f, p[:len(p)-1], off)
		return len(p), err, true
	}})
	add(&deviant{name: "writeat-ignores-offset", writeAt: func(f hackpadfs.File, p []byte, off int64) (int, error, bool) {
		if off == 0 {
			return 0, nil, false
		}
		n, err := hackpadfs.WriteAtFile(f, p, off-1)
		return n, err, true
	}})
	add(&deviant{name: "readat-off-by-one", readAt: func(f hackpadfs.File, p []byte, off int64) (int, error, bool) {
		if off == 0 {
			return 0, nil, false
		}
		n, err := hackpadfs.ReadAtFile(f, p, off-1)
		return n, err, true
	}})
	add(&deviant{name: "rename-noop", rename: func(fs *mem.FS, o, n string) (error, bool) {
		if _, err := fs.Stat(o); err != nil {
			return nil, false
		}
		return nil, true
	}})
	// renaming a file onto itself: "write the new name, delete the old one" without the same-name case loses the file
	add(&deviant{name: "rename-self-deletes", rename: func(fs *mem.FS, o, n string) (error, bool) {
		if o != n {
			return nil, false
		}
		if info, err := fs.Stat(o); err != nil || info.IsDir() {
			return nil, false
		}
		return fs.Remove(o), true
	}})
	add(&deviant{name: "rename-self-truncates", rename: func(fs *mem.FS, o, n string) (error, bool) {
		if o != n {
			return nil, false
		}
		if info, err := fs.Stat(o); err != nil || info.IsDir() {
			return nil, false
		}
		return hackpadfs.WriteFullFile(fs, o, nil, 0o666), true
	}})
	add(&deviant{name: "chmod-noop", chmod: func(fs *mem.FS, n string, m hackpadfs.FileMode) (error, bool) {
		if _, err := fs.Stat(n); err != nil {
			return nil, false
		}
		return nil, true
	}})
	add(&deviant{name: "chtimes-noop", chtimes: func(fs *mem.FS, n string, a, m time.Time) (error, bool) {
		if _, err := fs.Stat(n); err != nil {
			return nil, false
		}
		return nil, true
	}})
	add(&deviant{name: "write-noop", write: func(f hackpadfs.File, p []byte) (int, error, bool) { return len(p), nil, true }})
	add(&deviant{name: "truncate-noop", truncate: func(f hackpadfs.File, s int64) (error, bool) {
		if s < 0 {
			return nil, false
		}
		return nil, true
	}})
	add(&deviant{name: "create-noop", openFile: func(fs *mem.FS, n string, flag int, p hackpadfs.FileMode) (hackpadfs.File, error, bool) {
		if flag&hackpadfs.FlagCreate != 0 {
			if _, err := fs.Stat(n); err != nil {
				// pretend to create: hand out a handle on a scratch file system
				scratch, _ := mem.NewFS()
				f, err := scratch.OpenFile("scratch", flag, p)
				return f, err, true
			}
		}
		return nil, nil, false
	}})
	add(&deviant{name: "open-trunc-ignored", openFile: func(fs *mem.FS, n string, flag int, p hackpadfs.FileMode) (hackpadfs.File, error, bool) {
		f, err := fs.OpenFile(n, flag&^hackpadfs.FlagTruncate, p)
		return f, err, true
	}})
	add(&deviant{name: "open-append-ignored", openFile: func(fs *mem.FS, n string, flag int, p hackpadfs.FileMode) (hackpadfs.File, error, bool) {
		f, err := fs.OpenFile(n, flag&^hackpadfs.FlagAppend, p)
		return f, err, true
	}})
	add(&deviant{name: "open-excl-ignored", openFile: func(fs *mem.FS, n string, flag int, p hackpadfs.FileMode) (hackpadfs.File, error, bool) {
		f, err := fs.OpenFile(n, flag&^hackpadfs.FlagExclusive, p)
		return f, err, true
	}})
	// --- applied twice ---
	add(&deviant{name: "write-twice", write: func(f hackpadfs.File, p []byte) (int, error, bool) {
		n, err := hackpadfs.WriteFile(f, p)
		if err == nil {
			_, _ = hackpadfs.WriteFile(f, p)
		}
		return n, err, true
	}})
	add(&deviant{name: "mkdirall-extra-dir", mkdirAll: func(fs *mem.FS, n string, p hackpadfs.FileMode) (error, bool) {
		err := fs.MkdirAll(n, p)
		if err == nil {
			_ = fs.MkdirAll(n+"/extra", p)
		}
		return err, true
	}})
	// --- an entry left behind / missing ---
	add(&deviant{name: "rename-keeps-old", rename: func(fs *mem.FS, o, n string) (error, bool) {
		info, err := fs.Stat(o)
		if err != nil || info.IsDir() || o == n {
			return nil, false
		}
		data, _ := hackpadfs.ReadFile(fs, o)
		if err := fs.Rename(o, n); err != nil {
			return err, true
		}
		_ = hackpadfs.WriteFullFile(fs, o, data, info.Mode())
		return nil, true
	}})
	add(&deviant{name: "rename-drops-new", rename: func(fs *mem.FS, o, n string) (error, bool) {
		info, err := fs.Stat(o)
		if err != nil || info.IsDir() || o == n {
			return nil, false
		}
		if err := fs.Rename(o, n); err != nil {
			return err, true
		}
		_ = fs.Remove(n)
		return nil, true
	}})
	add(&deviant{name: "remove-leaves-sibling-junk", remove: func(fs *mem.FS, n string) (error, bool) {
		err := fs.Remove(n)
		if err == nil {
			_ = hackpadfs.WriteFullFile(fs, n+".bak", []byte("x"), 0o600)
		}
		return err, true
	}})
	add(&deviant{name: "mkdir-also-creates-junk", mkdir: func(fs *mem.FS, n string, p hackpadfs.FileMode) (error, bool) {
		err := fs.Mkdir(n, p)
		if err == nil {
			_ = hackpadfs.WriteFullFile(fs, n+"/junk", []byte("x"), 0o600)
		}
		return err, true
	}})
	add(&deviant{name: "mkdirall-leaf-only", mkdirAll: func(fs *mem.FS, n string, p hackpadfs.FileMode) (error, bool) {
		if strings.Contains(n, "/") {
			if _, err := fs.Stat(n[:strings.LastIndex(n, "/")]); err != nil {
				return nil, true // parents missing: claim success, create nothing
			}
		}
		return fs.MkdirAll(n, p), true
	}})
	add(&deviant{name: "readdir-drops-last", readDir: func(f hackpadfs.File, n int) ([]hackpadfs.DirEntry, error, bool) {
		es, err := hackpadfs.ReadDirFile(f, n)
		if n <= 0 && len(es) > 0 {
			es = es[:len(es)-1]
		}
		return es, err, true
	}})
	add(&deviant{name: "readdir-duplicates-first", readDir: func(f hackpadfs.File, n int) ([]hackpadfs.DirEntry, error, bool) {
		es, err := hackpadfs.ReadDirFile(f, n)
		if n <= 0 && len(es) > 0 {
			es = append(es, es[0])
		}
		return es, err, true
	}})
	// --- wrong permission bits ---
	add(&deviant{name: "mkdir-wrong-perm", mkdir: func(fs *mem.FS, n string, p hackpadfs.FileMode) (error, bool) { return fs.Mkdir(n, p^0o022), true }})
	add(&deviant{name: "create-wrong-perm", openFile: func(fs *mem.FS, n string, flag int, p hackpadfs.FileMode) (hackpadfs.File, error, bool) {
		f, err := fs.OpenFile(n, flag, p^0o044)
		return f, err, true
	}})
	add(&deviant{name: "chmod-wrong-perm", chmod: func(fs *mem.FS, n string, m hackpadfs.FileMode) (error, bool) { return fs.Chmod(n, m^0o011), true }})
	add(&deviant{name: "stat-wrong-perm", stat: func(fs *mem.FS, n string) (hackpadfs.FileInfo, error, bool) {
		info, err := fs.Stat(n)
		if err != nil {
			return nil, nil, false
		}
		m := info.Mode() ^ 0o100
		return fakeInfo{FileInfo: info, mode: &m}, nil, true
	}})
	add(&deviant{name: "stat-dir-as-file", stat: func(fs *mem.FS, n string) (hackpadfs.FileInfo, error, bool) {
		info, err := fs.Stat(n)
		if err != nil || !info.IsDir() || n == "." {
			return nil, nil, false
		}
		m := info.Mode() &^ gofs.ModeDir
		return fakeInfo{FileInfo: info, mode: &m}, nil, true
	}})
	// --- wrong size or bytes ---
	add(&deviant{name: "stat-size-plus-one", stat: func(fs *mem.FS, n string) (hackpadfs.FileInfo, error, bool) {
		info, err := fs.Stat(n)
		if err != nil || info.IsDir() {
			return nil, nil, false
		}
		s := info.Size() + 1
		return fakeInfo{FileInfo: info, size: &s}, nil, true
	}})
	add(&deviant{name: "fstat-size-plus-one", fstat: func(f hackpadfs.File) (hackpadfs.FileInfo, error, bool) {
		info, err := f.Stat()
		if err != nil || info.IsDir() {
			return nil, nil, false
		}
		s := info.Size() + 1
		return fakeInfo{FileInfo: info, size: &s}, nil, true
	}})
	// the same through an open handle: File.Stat() alone is wrong
	add(&deviant{name: "fstat-wrong-perm", fstat: func(f hackpadfs.File) (hackpadfs.FileInfo, error, bool) {
		info, err := f.Stat()
		if err != nil || info.IsDir() {
			return nil, nil, false
		}
		m := info.Mode() ^ 0o022
		return fakeInfo{FileInfo: info, mode: &m}, nil, true
	}})
	add(&deviant{name: "fstat-wrong-name", fstat: func(f hackpadfs.File) (hackpadfs.FileInfo, error, bool) {
		info, err := f.Stat()
		if err != nil {
			return nil, nil, false
		}
		n := info.Name() + "x"
		return fakeInfo{FileInfo: info, name: &n}, nil, true
	}})
	add(&deviant{name: "stat-wrong-name", stat: func(fs *mem.FS, n string) (hackpadfs.FileInfo, error, bool) {
		info, err := fs.Stat(n)
		if err != nil {
			return nil, nil, false
		}
		nm := info.Name() + "x"
		return fakeInfo{FileInfo: info, name: &nm}, nil, true
	}})
	add(&deviant{name: "read-flips-first-byte", read: func(f hackpadfs.File, p []byte) (int, error, bool) {
		n, err := f.Read(p)
		if n > 0 {
			p[0] ^= 0xff
		}
		return n, err, true
	}})
	add(&deviant{name: "read-short-by-one", read: func(f hackpadfs.File, p []byte) (int, error, bool) {
		if len(p) > 1 {
			p = p[:len(p)-1]
		}
		n, err := f.Read(p)
		return n, err, true
	}})
	add(&deviant{name: "write-drops-last-byte", write: func(f hackpadfs.File, p []byte) (int, error, bool) {
		if len(p) > 1 {
			_, err := hackpadfs.WriteFile(f, p[:len(p)-1])
			return len(p), err, true
		}
		return 0, nil, false
	}})
	add(&deviant{name: "write-reports-short-count", write: func(f hackpadfs.File, p []byte) (int, error, bool) {
		n, err := hackpadfs.WriteFile(f, p)
		if n > 0 {
			n--
		}
		return n, err, true
	}})
	add(&deviant{name: "truncate-off-by-one", truncate: func(f hackpadfs.File, s int64) (error, bool) {
		if s < 0 {
			return nil, false
		}
		return hackpadfs.TruncateFile(f, s+1), true
	}})
	// one Truncate scenario each: a deviation confined to shrinking, growing, emptying or a negative size
	sizeOf := func(f hackpadfs.File) int64 {
		info, err := f.Stat()
		if err != nil {
			return -1
		}
		return info.Size()
	}
	add(&deviant{name: "truncate-never-shrinks", truncate: func(f hackpadfs.File, s int64) (error, bool) {
		if cur := sizeOf(f); s > 0 && cur >= 0 && s < cur {
			return nil, true
		}
		return nil, false
	}})
	add(&deviant{name: "truncate-never-grows", truncate: func(f hackpadfs.File, s int64) (error, bool) {
		if cur := sizeOf(f); cur >= 0 && s > cur {
			return nil, true
		}
		return nil, false
	}})
	add(&deviant{name: "truncate-zero-noop", truncate: func(f hackpadfs.File, s int64) (error, bool) {
		return nil, s == 0
	}})
	add(&deviant{name: "truncate-negative-accepted", truncate: func(f hackpadfs.File, s int64) (error, bool) {
		return nil, s < 0
	}})
	add(&deviant{name: "truncate-negative-wrong-kind", truncate: func(f hackpadfs.File, s int64) (error, bool) {
		if s < 0 {
			return &hackpadfs.PathError{Op: "truncate", Path: "foo", Err: hackpadfs.ErrNotExist}, true
		}
		return nil, false
	}})
	add(&deviant{name: "seek-end-off-by-one", seek: func(f hackpadfs.File, off int64, wh int) (int64, error, bool) {
		if wh == io.SeekEnd {
			n, err := hackpadfs.SeekFile(f, off+1, wh)
			return n, err, true
		}
		return 0, nil, false
	}})
	add(&deviant{name: "seek-reports-wrong-offset", seek: func(f hackpadfs.File, off int64, wh int) (int64, error, bool) {
		n, err := hackpadfs.SeekFile(f, off, wh)
		if err == nil {
			n++
		}
		return n, err, true
	}})
	// --- wrong error kind or path ---
	swap := func(from, to error) func(string, error) error {
		return func(op string, err error) error {
			if errors.Is(err, from) {
				switch e := err.(type) {
				case *hackpadfs.PathError:
					return &hackpadfs.PathError{Op: e.Op, Path: e.Path, Err: to}
				case *hackpadfs.LinkError:
					return &hackpadfs.LinkError{Op: e.Op, Old: e.Old, New: e.New, Err: to}
				}
				return to
			}
			return err
		}
	}
	add(&deviant{name: "err-notexist-as-exist", mapErr: swap(hackpadfs.ErrNotExist, hackpadfs.ErrExist)})
	add(&deviant{name: "err-exist-as-notexist", mapErr: swap(hackpadfs.ErrExist, hackpadfs.ErrNotExist)})
	add(&deviant{name: "err-notempty-as-exist", mapErr: swap(hackpadfs.ErrNotEmpty, hackpadfs.ErrPermission)})
	add(&deviant{name: "err-isdir-as-invalid", mapErr: swap(hackpadfs.ErrIsDir, hackpadfs.ErrInvalid)})
	add(&deviant{name: "err-notdir-as-notexist", mapErr: swap(hackpadfs.ErrNotDir, hackpadfs.ErrNotExist)})
	add(&deviant{name: "err-invalid-as-notexist", mapErr: swap(hackpadfs.ErrInvalid, hackpadfs.ErrNotExist)})
	// every other pair of sentinels the scenarios expect (except Exist reported as ENOTEMPTY, which errors.Is accepts:
	// syscall.ENOTEMPTY matches fs.ErrExist by Errno.Is)
	{
		type sn struct {
			n string
			e error
		}
		sents := []sn{{"notexist", hackpadfs.ErrNotExist}, {"exist", hackpadfs.ErrExist}, {"notempty", hackpadfs.ErrNotEmpty},
			{"isdir", hackpadfs.ErrIsDir}, {"notdir", hackpadfs.ErrNotDir}, {"invalid", hackpadfs.ErrInvalid}}
		have := map[string]bool{"notexist-exist": true, "exist-notexist": true, "isdir-invalid": true, "notdir-notexist": true, "invalid-notexist": true, "exist-notempty": true}
		for _, from := range sents {
			for _, to := range sents {
				if from.n == to.n || have[from.n+"-"+to.n] {
					continue
				}
				add(&deviant{name: "err-" + from.n + "-as-" + to.n + "-m", mapErr: swap(from.e, to.e)})
			}
		}
	}
	// a handle opened read-only accepts Write (and says the bytes were written) / accepts Truncate
	add(&deviant{name: "ro-handle-accepts-write", roWriteOK: true})
	// the error paths of ONE operation carry an inner-namespace prefix (what a mount or sub layer does when it forgets to
	// translate back); the all-operations variant below is also caught by the strict check of Stat's error alone
	for _, only := range []string{"open", "mkdir", "mkdirall", "remove", "rename", "chtimes"} { // (no scenario makes Chmod fail)
		only := only
		add(&deviant{name: "err-path-prefixed-" + only, mapErr: func(op string, err error) error {
			if op != only {
				return err
			}
			switch e := err.(type) {
			case *hackpadfs.PathError:
				return &hackpadfs.PathError{Op: e.Op, Path: "inner/" + e.Path, Err: e.Err}
			case *hackpadfs.LinkError:
				return &hackpadfs.LinkError{Op: e.Op, Old: "inner/" + e.Old, New: "inner/" + e.New, Err: e.Err}
			}
			return err
		}})
	}
	add(&deviant{name: "err-path-prefixed", mapErr: func(op string, err error) error {
		switch e := err.(type) {
		case *hackpadfs.PathError:
			return &hackpadfs.PathError{Op: e.Op, Path: "inner/" + e.Path, Err: e.Err}
		case *hackpadfs.LinkError:
			return &hackpadfs.LinkError{Op: e.Op, Old: "inner/" + e.Old, New: "inner/" + e.New, Err: e.Err}
		}
		return err
	}})
	add(&deviant{name: "linkerr-wrong-new", mapErr: func(op string, err error) error {
		if e, ok := err.(*hackpadfs.LinkError); ok {
			return &hackpadfs.LinkError{Op: e.Op, Old: e.Old, New: e.Old, Err: e.Err}
		}
		return err
	}})
	add(&deviant{name: "linkerr-wrong-old", mapErr: func(op string, err error) error {
		if e, ok := err.(*hackpadfs.LinkError); ok {
			return &hackpadfs.LinkError{Op: e.Op, Old: e.New, New: e.New, Err: e.Err}
		}
		return err
	}})
	add(&deviant{name: "linkerr-wrong-op", mapErr: func(op string, err error) error {
		if e, ok := err.(*hackpadfs.LinkError); ok {
			return &hackpadfs.LinkError{Op: "frobnicate", Old: e.Old, New: e.New, Err: e.Err}
		}
		return err
	}})
	add(&deviant{name: "linkerr-as-patherror", mapErr: func(op string, err error) error {
		if e, ok := err.(*hackpadfs.LinkError); ok {
			return &hackpadfs.PathError{Op: e.Op, Path: e.Old, Err: e.Err}
		}
		return err
	}})
	add(&deviant{name: "err-path-empty", mapErr: func(op string, err error) error {
		if e, ok := err.(*hackpadfs.PathError); ok {
			return &hackpadfs.PathError{Op: e.Op, Path: "", Err: e.Err}
		}
		return err
	}})
	add(&deviant{name: "err-untyped", mapErr: func(op string, err error) error { return errors.Unwrap(err) }})
	add(&deviant{name: "err-wrong-op", mapErr: func(op string, err error) error {
		if e, ok := err.(*hackpadfs.PathError); ok {
			return &hackpadfs.PathError{Op: "frobnicate", Path: e.Path, Err: e.Err}
		}
		return err
	}})
	// --- an operation that fails with the right error but is partly applied ---
	add(&deviant{name: "remove-nonempty-deletes-children", remove: func(fs *mem.FS, n string) (error, bool) {
		err := fs.Remove(n)
		if errors.Is(err, hackpadfs.ErrNotEmpty) {
			if ents, e2 := hackpadfs.ReadDir(fs, n); e2 == nil {
				for _, e := range ents {
					_ = hackpadfs.RemoveAll(fs, n+"/"+e.Name())
				}
			}
		}
		return err, true
	}})
	add(&deviant{name: "rename-failing-removes-old", rename: func(fs *mem.FS, o, n string) (error, bool) {
		err := fs.Rename(o, n)
		if err != nil && !errors.Is(err, hackpadfs.ErrNotExist) {
			_ = hackpadfs.RemoveAll(fs, o)
		}
		return err, true
	}})
	add(&deviant{name: "mkdir-failing-creates-sibling", mkdir: func(fs *mem.FS, n string, p hackpadfs.FileMode) (error, bool) {
		err := fs.Mkdir(n, p)
		if errors.Is(err, hackpadfs.ErrExist) {
			_ = hackpadfs.WriteFullFile(fs, n+".stray", nil, 0o644)
		}
		return err, true
	}})
	add(&deviant{name: "remove-nonempty-dir-allowed", remove: func(fs *mem.FS, n string) (error, bool) {
		if info, err := fs.Stat(n); err == nil && info.IsDir() {
			return hackpadfs.RemoveAll(fs, n), true
		}
		return nil, false
	}})
	add(&deviant{name: "mkdir-existing-succeeds", mkdir: func(fs *mem.FS, n string, p hackpadfs.FileMode) (error, bool) {
		if _, err := fs.Stat(n); err == nil {
			return nil, true
		}
		return nil, false
	}})
	add(&deviant{name: "open-missing-creates", openFile: func(fs *mem.FS, n string, flag int, p hackpadfs.FileMode) (hackpadfs.File, error, bool) {
		if flag&(hackpadfs.FlagWriteOnly|hackpadfs.FlagReadWrite) != 0 {
			f, err := fs.OpenFile(n, flag|hackpadfs.FlagCreate, 0o666)
			return f, err, true
		}
		return nil, nil, false
	}})
	add(&deviant{name: "open-dir-for-write-allowed", openFile: func(fs *mem.FS, n string, flag int, p hackpadfs.FileMode) (hackpadfs.File, error, bool) {
		if info, err := fs.Stat(n); err == nil && info.IsDir() && flag != 0 {
			f, err := fs.OpenFile(n, hackpadfs.FlagReadOnly, 0)
			return f, err, true
		}
		return nil, nil, false
	}})
	// --- end of file ---
	add(&deviant{name: "read-eof-one-byte-early", read: func(f hackpadfs.File, p []byte) (int, error, bool) {
		n, err := f.Read(p)
		if n > 1 && err == nil {
			return n, err, true
		}
		if n > 1 {
			// at the end: withhold the last byte for good
			_, _ = hackpadfs.SeekFile(f, -1, io.SeekCurrent)
			return n - 1, io.EOF, true
		}
		return n, err, true
	}})
	add(&deviant{name: "read-never-eof-error", read: func(f hackpadfs.File, p []byte) (int, error, bool) {
		n, err := f.Read(p)
		if err == io.EOF && n == 0 {
			return 0, errors.New("no more data"), true
		}
		if err == io.EOF {
			err = nil
		}
		return n, err, true
	}})
	add(&deviant{name: "close-twice-succeeds"}) // placeholder refined below
	ds[len(ds)-1].openFile = func(fs *mem.FS, n string, flag int, p hackpadfs.FileMode) (hackpadfs.File, error, bool) {
		f, err := fs.OpenFile(n, flag, p)
		if err != nil {
			return nil, err, true
		}
		return &lenientClose{File: f}, nil, true
	}
	add(&deviant{name: "chtimes-sets-now", chtimes: func(fs *mem.FS, n string, a, m time.Time) (error, bool) {
		return fs.Chtimes(n, time.Now(), time.Now()), true
	}})
	return ds
}

type lenientClose struct {
	hackpadfs.File
	closed bool
}

func (l *lenientClose) Close() error {
	if l.closed {
		return nil
	}
	l.closed = true
	return l.File.Close()
}
func (l *lenientClose) Write(p []byte) (int, error)        { return hackpadfs.WriteFile(l.File, p) }
func (l *lenientClose) Seek(o int64, w int) (int64, error) { return hackpadfs.SeekFile(l.File, o, w) }
func (l *lenientClose) ReadAt(p []byte, o int64) (int, error) {
	return hackpadfs.ReadAtFile(l.File, p, o)
}
func (l *lenientClose) WriteAt(p []byte, o int64) (int, error) {
	return hackpadfs.WriteAtFile(l.File, p, o)
}
func (l *lenientClose) Truncate(s int64) error { return hackpadfs.TruncateFile(l.File, s) }
func (l *lenientClose) ReadDir(n int) ([]hackpadfs.DirEntry, error) {
	return hackpadfs.ReadDirFile(l.File, n)
}

func optionsFor(name string, d *deviant) fstest.FSOptions {
	return fstest.FSOptions{
		Name: name,
		TestFS: func(tb testing.TB) fstest.SetupFS {
			m, err := mem.NewFS()
			if err != nil {
				tb.Fatal(err)
			}
			if d == nil {
				return m
			}
			return &devFS{FS: m, d: d}
		},
	}
}

// TestReference: the unmodified reference implementations must pass.
func TestReference(t *testing.T) {
	t.Run("mem", func(t *testing.T) {
		o := optionsFor("mem", nil)
		fstest.FS(t, o)
		fstest.File(t, o)
	})
	t.Run("os", func(t *testing.T) {
		old := syscallUmask(0)
		defer syscallUmask(old)
		o := fstest.FSOptions{
			Name: "os",
			TestFS: func(tb testing.TB) fstest.SetupFS {
				dir := tb.TempDir()
				sub, err := hpos.NewFS().Sub(strings.TrimPrefix(dir, "/"))
				if err != nil {
					tb.Fatal(err)
				}
				return sub.(*hpos.FS)
			},
		}
		fstest.FS(t, o)
		fstest.File(t, o)
	})
}

// TestDeviants: every single-deviation wrapper must make the suite report a failure.
func TestDeviants(t *testing.T) {
	for _, d := range catalogue() {
		d := d
		t.Run(d.name, func(t *testing.T) {
			o := optionsFor("dev", d)
			fstest.FS(t, o)
			fstest.File(t, o)
		})
	}
}

// TestAssertLayer prints the verdict of the suite's tree assertion on generated (expected, actual, mask) triples,
// to be compared with the model of it.
func TestAssertLayer(t *testing.T) {
	seed := uint64(1)
	if s := os.Getenv("VERIF_SEED"); s != "" {
		fmt.Sscan(s, &seed)
	}
	next := func() uint64 {
		seed += 0x9E3779B97F4A7C15
		z := seed
		z = (z ^ (z >> 30)) * 0xBF58476D1CE4E5B9
		z = (z ^ (z >> 27)) * 0x94D049BB133111EB
		return z ^ (z >> 31)
	}
	names := []string{"a", "b", "a/c", "d"}
	for i := 0; i < 200; i++ {
		m, _ := mem.NewFS()
		type ent struct {
			isDir bool
			perm  uint32
			size  int
		}
		actual := map[string]ent{}
		for _, n := range names {
			switch next() % 3 {
			case 0:
				if strings.Contains(n, "/") {
					if e, ok := actual["a"]; !ok || !e.isDir {
						continue
					}
				}
				e := ent{true, []uint32{0o755, 0o700}[next()%2], 0}
				if m.Mkdir(n, gofs.FileMode(e.perm)) == nil {
					actual[n] = e
				}
			case 1:
				if strings.Contains(n, "/") {
					if e, ok := actual["a"]; !ok || !e.isDir {
						continue
					}
				}
				e := ent{false, []uint32{0o644, 0o600}[next()%2], int(next() % 3)}
				if hackpadfs.WriteFullFile(m, n, make([]byte, e.size), gofs.FileMode(e.perm)) == nil {
					actual[n] = e
				}
			}
		}
		// expected: a perturbed copy
		expected := map[string]fstest.FSEntryVerif{}
		var lines []string
		sortedNames := func(has func(string) bool) []string {
			var out []string
			for _, n := range append(append([]string(nil), names...), "zz") {
				if has(n) {
					out = append(out, n)
				}
			}
			return out
		}
		inActual := func(n string) bool { _, ok := actual[n]; return ok }
		// (fixed iteration order: every random choice must replay from the seed)
		for _, n := range sortedNames(inActual) {
			e := actual[n]
			if next()%5 == 0 {
				continue // expectation omits an entry that exists (an extra entry in the actual tree)
			}
			mode := gofs.FileMode(e.perm)
			if e.isDir {
				mode |= gofs.ModeDir
			}
			if next()%4 == 0 {
				mode ^= 0o011 // wrong permission bits expected
			}
			size := int64(e.size)
			if !e.isDir && next()%6 == 0 {
				size++
			}
			expected[n] = fstest.FSEntryVerif{Size: size, Mode: mode, IsDir: e.isDir}
		}
		if next()%6 == 0 {
			expected["zz"] = fstest.FSEntryVerif{Size: 0, Mode: 0o644, IsDir: false} // expected but missing
		}
		mask := []gofs.FileMode{0, 0o777, gofs.ModeDir | 0o777, 0xFFFFFFFF, 0o700}[next()%5]
		for _, n := range sortedNames(func(n string) bool { _, ok := expected[n]; return ok }) {
			e := expected[n]
			lines = append(lines, fmt.Sprintf("E %s %d %d %v", n, e.Size, uint32(e.Mode), e.IsDir))
		}
		for _, n := range sortedNames(inActual) {
			e := actual[n]
			mode := uint32(e.perm)
			if e.isDir {
				mode |= uint32(gofs.ModeDir)
			}
			lines = append(lines, fmt.Sprintf("A %s %d %d %v", n, e.size, mode, e.isDir))
		}
		ok := t.Run(fmt.Sprintf("case%d", i), func(t *testing.T) {
			o := fstest.FSOptions{Name: "x"}
			o.Constraints.FileModeMask = mask
			o.TryAssertEqualFSVerif(t, expected, m)
		})
		fmt.Printf("ASSERTCASE %d mask=%d verdict=%v | %s\n", i, uint32(mask), ok, strings.Join(lines, " ; "))
	}
}

// TestListDeviants prints the catalogue's names.
func TestListDeviants(t *testing.T) {
	for _, d := range catalogue() {
		fmt.Println("DEVIANT", d.name)
	}
}
