package main

import (
	"fmt"

	"github.com/hack-pad/hackpadfs"
)

func init() {
	commands["C01"] = func(r *Rng, n int, replay string) { runNS(r, n, "C01", false, newMemWorld) }
}

func newMemWorld() (hackpadfs.FS, func()) { return newMem(), func() {} }

// opClass is the coverage cell / signature component of an op with its outcome.
func outcome(o Obs) string {
	switch o.Kind {
	case "err":
		return o.Err.Cls
	case "panic", "hang":
		return o.Kind
	}
	if o.failed() {
		return o.Err.Cls
	}
	return "ok"
}

// runNS generates namespace histories, runs them on the implementation and on os.FS in a temp
// dir, evaluates the C01 oracle and emits the case for the model.
func runNS(r *Rng, n int, prop string, withRoot bool, mk func() (hackpadfs.FS, func())) {
	cands := candidatePaths(nsNames, nsDepth)
	for id := 0; id < n; id++ {
		ops := genNS(r, withRoot)
		implFS, implDone := mk()
		refFS, refDone := newOSWorld()
		impl := &World{FS: implFS}
		ref := &World{FS: refFS}
		c := &Case{ID: id}
		cells := map[string]bool{}
		var items []string
		var opsC []string
		diverged := false
		for i, o := range ops {
			a := impl.Apply(o)
			as := Snapshot(implFS, cands)
			opsC = append(opsC, o.coq())
			items = append(items, cPair(a.coq(), snapCoqFS(as)))
			c.Text = append(c.Text, fmt.Sprintf("%s -> %s", o, a))
			cells[o.Kind+"/"+outcome(a)] = true
			if diverged {
				continue
			}
			b := ref.Apply(o)
			bs := Snapshot(refFS, cands)
			fail := func(what string, sig string) {
				c.fail(fmt.Sprintf("step %d (%s): %s [impl: %s | os: %s]", i, o, what, a, b), sig)
			}
			switch {
			case a.Kind == "panic":
				fail("implementation panicked", o.Kind+":panic")
			case a.failed() != b.failed():
				fail("success differs from os", fmt.Sprintf("%s:success:%s-vs-%s", o.Kind, outcome(a), outcome(b)))
			case !a.failed():
				if d := dataDiffOS(o, a, b); d != "" {
					fail("returned data differs: "+d, o.Kind+":data")
				}
			}
			if d := snapDiffOS(as, bs); d != "" {
				fail("tree differs after the step: "+d+" | impl tree: "+snapText(as)+" | os tree: "+snapText(bs), o.Kind+":tree-"+diffClass(d)+":"+outcome(a))
				diverged = true // from here on the two worlds are in different states
			}
		}
		impl.CloseAll()
		ref.CloseAll()
		implDone()
		refDone()
		for k := range cells {
			c.Cells = append(c.Cells, k)
		}
		c.Coq = cPair(cList(opsC), cList(items))
		emit(c)
	}
}
