package main

import (
	"fmt"
	"strings"

	"github.com/hack-pad/hackpadfs"
	"github.com/hack-pad/hackpadfs/keyvalue"
	"github.com/hack-pad/hackpadfs/mount"
)

func init() {
	commands["C05"] = func(r *Rng, n int, replay string) {
		runErr(r, n, "", true, newMemWorld)
		// the same comparison through the composition layers (no model: C06/C07 carry those); Rename is left to C06/C07
		k := n / 4
		runErr(r, k, "sub2mem", false, func() (hackpadfs.FS, func()) {
			base := newMem()
			if err := hackpadfs.MkdirAll(base, "a/ab", 0o755); err != nil {
				panic(err)
			}
			_ = hackpadfs.Chmod(base, "a/ab", 0o777)
			sub, err := hackpadfs.Sub(base, "a/ab")
			if err != nil {
				panic(err)
			}
			return sub, func() {}
		})
		runErr(r, k, "mount", false, func() (hackpadfs.FS, func()) {
			root, m1, m2 := newMem(), newMem(), newMem()
			_ = hackpadfs.Mkdir(root, "a", 0o755)
			_ = hackpadfs.MkdirAll(root, "ab/b", 0o755)
			m, _ := mount.NewFS(root)
			if err := m.AddMount("a", m1); err != nil {
				panic(err)
			}
			if err := m.AddMount("ab/b", m2); err != nil {
				panic(err)
			}
			return m, func() {}
		})
		runErr(r, k, "subos2", false, func() (hackpadfs.FS, func()) {
			fs, done := newOSWorld()
			if err := hackpadfs.MkdirAll(fs, "x/ab", 0o777); err != nil {
				panic(err)
			}
			_ = hackpadfs.Chmod(fs, "x/ab", 0o777)
			sub, err := hackpadfs.Sub(fs, "x/ab")
			if err != nil {
				panic(err)
			}
			return sub, done
		})
		runErrFaults(r, n/2)
		runMountRenameErrs(r, n/4+10)
	}
}

// runMountRenameErrs: Rename through a mount FS -- within the root, within one mount, across two mounts, and between two
// mount points that are backed by the SAME file system value: whenever it fails, the error is a *LinkError whose two
// names are the caller's names, whichever constituent produced it.
func runMountRenameErrs(r *Rng, n int) {
	cands := candidatePaths(nsNames, 2)
	cands = append(cands, "c", "c/a", "c/b", "c/ab/a", "c/nodir/a", "a/nodir/b", "ab/b/a", "ab/b/nodir/a", "nodir/a",
		// p is a mount FS mounted inside the mount FS, with a mount point q of its own
		"p/x", "p/y", "p/q/a", "p/q/y", "p/q/nodir/y", "p/nodir/y", "p/x/y", "p/q/a/y")
	for k := 0; k < n; k++ {
		root, m1, m2 := newMem(), newMem(), newMem()
		_ = hackpadfs.Mkdir(root, "a", 0o755)
		_ = hackpadfs.Mkdir(root, "c", 0o755)
		_ = hackpadfs.MkdirAll(root, "ab/b", 0o755)
		_ = hackpadfs.WriteFullFile(root, "b", []byte{1}, 0o644)
		_ = hackpadfs.WriteFullFile(m1, "a", []byte{2}, 0o644)
		_ = hackpadfs.Mkdir(m1, "ab", 0o755)
		_ = hackpadfs.WriteFullFile(m2, "a", []byte{3}, 0o644)
		_ = hackpadfs.Mkdir(root, "p", 0o755)
		innerRoot, innerQ := newMem(), newMem()
		_ = hackpadfs.WriteFullFile(innerRoot, "x", []byte{4}, 0o644)
		_ = hackpadfs.Mkdir(innerRoot, "q", 0o755)
		_ = hackpadfs.WriteFullFile(innerQ, "a", []byte{5}, 0o644)
		innerM, _ := mount.NewFS(innerRoot)
		_ = innerM.AddMount("q", innerQ)
		m, _ := mount.NewFS(root)
		c := &Case{ID: c05NextID, Kind: "mountrename", Trivial: true}
		c05NextID++
		c.Cells = []string{"mountrename"}
		setup := ""
		for _, mp := range []struct {
			p  string
			fs hackpadfs.FS
		}{{"a", m1}, {"ab/b", m2}, {"c", m1}, {"p", innerM}} {
			if err := m.AddMount(mp.p, mp.fs); err != nil {
				setup = fmt.Sprintf("AddMount(%q): %v", mp.p, err)
			}
		}
		if setup != "" {
			c.fail("mountrename: "+setup, "mountrename:setup")
			emit(c)
			continue
		}
		for i := 0; i < 6; i++ {
			o, nw := cands[r.Intn(len(cands))], cands[r.Intn(len(cands))]
			err := hackpadfs.Rename(m, o, nw)
			c.Text = append(c.Text, fmt.Sprintf("rename %q %q -> %v", o, nw, err))
			if err == nil {
				continue
			}
			ce := canonErr(err)
			switch {
			case ce.Kind != "L":
				c.fail(fmt.Sprintf("mountrename (a and c are the same file system mounted twice, ab/b another, p a mount FS with a mount point q): Rename(%q, %q) failed with %s, not a *LinkError", o, nw, ce), "mountrename:type:"+ce.Kind)
			case ce.Old != o || ce.New != nw:
				c.fail(fmt.Sprintf("mountrename (a and c are the same file system mounted twice, ab/b another, p a mount FS with a mount point q): Rename(%q, %q) failed with %s: the names are not the caller's", o, nw, ce), "mountrename:path:differs")
			}
		}
		emit(c)
	}
}

// runErrFaults: the key-value FS over a store that fails one call (both transaction paths, as in C14): whatever an
// operation then reports must still be typed -- a *PathError naming the caller's path (for ReadDir, ReadFile, WriteFile,
// MkdirAll and RemoveAll possibly a descendant or an ancestor of it), a *LinkError naming both names of a Rename (or,
// when moving a descendant of a directory failed, both extended by the same relative path), and io.EOF or a
// *PathError for operations on a handle.
func runErrFaults(r *Rng, n int) {
	related := func(p, q string) bool {
		return p == q || q == "." || p == "." || strings.HasPrefix(p, q+"/") || strings.HasPrefix(q, p+"/")
	}
	for hidx := 0; hidx < n; hidx++ {
		ops := genFaultHistory(r)
		useTxn := hidx%2 == 1
		kindName := map[bool]string{false: "plain", true: "txn"}[useTxn]
		mk := func() (hackpadfs.FS, *plainStore) {
			ps := newPlainStore()
			var st keyvalue.Store = ps
			if useTxn {
				st = &txnStore{plainStore: ps}
			}
			fs, err := keyvalue.NewFS(st)
			if err != nil {
				panic(err)
			}
			ps.calls = 0
			return fs, ps
		}
		fs0, ps0 := mk()
		w0 := &World{FS: fs0}
		var live []Op
		for _, o := range ops {
			if len(o.Kind) > 2 && o.Kind[:2] == "h:" && o.H >= len(w0.Handles) {
				continue
			}
			w0.Apply(o)
			live = append(live, o)
		}
		w0.CloseAll()
		total := ps0.calls
		c := &Case{ID: c05NextID, Kind: "faults/" + kindName, Trivial: true}
		c05NextID++
		cells := map[string]bool{}
		// every fault index of short histories, a sample of long ones
		stride := 1 + total/40
		for fault := r.Intn(stride); fault < total; fault += stride {
			fs, ps := mk()
			ps.failAt = fault
			ps.tracing = true
			w := &World{FS: fs}
			for i, o := range live {
				a := w.Apply(o)
				if a.Kind == "panic" {
					break // C14's business
				}
				if a.Kind != "err" {
					continue
				}
				e := a.Err
				bad := ""
				switch {
				case len(o.Kind) > 2 && o.Kind[:2] == "h:":
					if e.Kind != "P" && !(e.Kind == "B" && e.Cls == "EEOF") {
						bad = "the error of a handle operation is neither io.EOF nor a *PathError"
					}
				case o.Kind == "rename":
					switch {
					case e.Kind != "L":
						bad = "the error of Rename is not a *LinkError"
					case e.Old == o.P && e.New == o.Q:
					case strings.HasPrefix(e.Old, o.P+"/") && strings.HasPrefix(e.New, o.Q+"/") && e.Old[len(o.P):] == e.New[len(o.Q):]:
					default:
						bad = "the *LinkError does not name the caller's names"
					}
				default:
					exact := !(o.Kind == "readdir" || o.Kind == "readfile" || o.Kind == "writefile" || o.Kind == "mkdirall" || o.Kind == "removeall")
					switch {
					case e.Kind != "P":
						bad = "the error is not a *PathError"
					case e.Path == "":
						bad = "the *PathError has an empty path"
					case exact && e.Path != o.P, !exact && !related(e.Path, o.P):
						bad = "the *PathError does not name the caller's path"
					}
				}
				cells["faults/"+o.Kind] = true
				if bad != "" {
					c.fail(fmt.Sprintf("faults:[%s store] store call %d (%s) fails; step %d (%s) -> %s: %s", kindName, fault, ps.traceAt(fault), i, o, a, bad), "faults:"+o.Kind+":type:"+e.Kind)
				}
			}
			w.CloseAll()
		}
		c.Text = []string{fmt.Sprintf("[%s store] %d operations, %d store calls, every %d-th call failed in turn", kindName, len(live), total, stride)}
		for k := range cells {
			c.Cells = append(c.Cells, k)
		}
		emit(c)
	}
}

var c05NextID int

var sentinels = map[string]bool{"ENOENT": true, "EEXIST": true, "EISDIR": true, "ENOTDIR": true, "ENOTEMPTY": true, "EINVAL": true, "ECLOSED": true}

// errDiff compares the error of a failing call with the one os reports for the same failure (C05).
func errDiff(o Op, a, b *CErr) (string, string) {
	if a == nil || b == nil {
		return "", ""
	}
	wantKind := "P"
	if o.Kind == "rename" {
		wantKind = "L"
	}
	if a.Kind != wantKind {
		return fmt.Sprintf("error is not a %s-type error: %s", map[string]string{"P": "*PathError", "L": "*LinkError"}[wantKind], a), "type:" + a.Kind
	}
	if a.Kind == "P" && a.Path == "" || a.Kind == "L" && (a.Old == "" || a.New == "") {
		return "error has an empty path: " + a.String(), "path:empty"
	}
	if b.Kind == a.Kind {
		if a.Kind == "P" && a.Path != b.Path {
			if a.Path == o.P && strings.HasPrefix(o.P, b.Path+"/") {
				// (the known RemoveAll finding: the argument is named where os names the offending ancestor)
				return fmt.Sprintf("error path %q (the argument), os names its ancestor %q", a.Path, b.Path), "path:argument-vs-ancestor"
			}
			return fmt.Sprintf("error path %q, os names %q", a.Path, b.Path), "path:differs"
		}
		if a.Kind == "L" && (a.Old != b.Old || a.New != b.New) {
			return fmt.Sprintf("error paths %q %q, os names %q %q", a.Old, a.New, b.Old, b.New), "path:differs"
		}
	}
	if sentinels[b.Cls] && a.Cls != b.Cls {
		return fmt.Sprintf("error class %s, os reports %s", a.Cls, b.Cls), "class:" + a.Cls + "-vs-" + b.Cls
	}
	return "", ""
}

// runErr: namespace histories biased to failing calls; every failing call's error is compared with os.
func runErr(r *Rng, n int, layer string, model bool, mk func() (hackpadfs.FS, func())) {
	cands := candidatePaths(nsNames, nsDepth)
	pre := ""
	if layer != "" {
		pre = layer + ":"
	}
	for id := 0; id < n; id++ {
		ops := genNS(r, false)
		implFS, implDone := mk()
		refFS, refDone := newOSWorld()
		if layer == "mount" {
			// the flat reference has plain directories where the mount points are
			_ = hackpadfs.Mkdir(refFS, "a", 0o755)
			_ = hackpadfs.MkdirAll(refFS, "ab/b", 0o755)
			_ = hackpadfs.Chmod(implFS, "a", 0o755)
			_ = hackpadfs.Chmod(implFS, "ab/b", 0o755)
		}
		impl := &World{FS: implFS}
		ref := &World{FS: refFS}
		c := &Case{ID: c05NextID, Kind: layer}
		c05NextID++
		cells := map[string]bool{}
		var items, opsC []string
		diverged := false
		for i, o := range ops {
			if layer != "" && o.Kind == "rename" {
				continue
			}
			if layer == "mount" && (o.Kind == "remove" || o.Kind == "removeall") && (o.P == "." || o.P == "a" || o.P == "ab" || o.P == "ab/b") {
				continue // removing a mount point or a directory that holds one: C03's finding, C06's business
			}
			if layer != "" && o.P != "" && r.Intn(8) == 0 {
				// an invalid spelling of the name (through the layers only): every layer, like os.FS, answers ErrInvalid
				// in a *PathError naming the argument -- also where the spelling "resolves" to something that exists
				// (a mount point or the view's base with a trailing slash or dot)
				o.P = []string{o.P + "/", o.P + "/.", "./" + o.P, o.P + "//x", "/" + o.P}[r.Intn(5)]
			}
			a := impl.Apply(o)
			as := Snapshot(implFS, cands)
			opsC = append(opsC, o.coq())
			items = append(items, cPair(a.coq(), snapCoqFS(as)))
			c.Text = append(c.Text, fmt.Sprintf("%s -> %s", o, a))
			cells[o.Kind+"/"+outcome(a)] = true
			if diverged {
				continue
			}
			b := ref.Apply(o)
			bs := Snapshot(refFS, cands)
			if a.Kind == "err" && b.Kind == "err" {
				if d, sig := errDiff(o, a.Err, b.Err); d != "" {
					c.fail(fmt.Sprintf("%sstep %d (%s): %s [impl: %s | os: %s]", pre, i, o, d, a, b), pre+o.Kind+":"+sig)
				}
			} else if a.Kind == "err" {
				// failing where os succeeds is C01's concern; the error must still be typed and name a path
				if d, sig := errDiff(o, a.Err, a.Err); d != "" {
					c.fail(fmt.Sprintf("%sstep %d (%s): %s [impl: %s]", pre, i, o, d, a), pre+o.Kind+":"+sig)
				}
			}
			if snapDiffOS(as, bs) != "" {
				diverged = true
			}
		}
		impl.CloseAll()
		ref.CloseAll()
		implDone()
		refDone()
		for k := range cells {
			c.Cells = append(c.Cells, pre+k)
		}
		if model {
			c.Coq = cPair(cList(opsC), cList(items))
		}
		emit(c)
	}
}
