package main

import (
	"fmt"

	"github.com/hack-pad/hackpadfs"
	"github.com/hack-pad/hackpadfs/mount"
)

func init() {
	commands["C05"] = func(r *Rng, n int, replay string) {
		runErr(r, n, "", true, newMemWorld)
		// the same comparison through the composition layers (no model: C06/C07 carry those); Rename is left to C06/C07
		k := n / 4
		runErr(r, k, "sub2mem", false, func() (hackpadfs.FS, func()) {
			base := newMem()
			if err := hackpadfs.MkdirAll(base, "a/ab", 0o755); err != nil {
				panic(err)
			}
			_ = hackpadfs.Chmod(base, "a/ab", 0o777)
			sub, err := hackpadfs.Sub(base, "a/ab")
			if err != nil {
				panic(err)
			}
			return sub, func() {}
		})
		runErr(r, k, "mount", false, func() (hackpadfs.FS, func()) {
			root, m1, m2 := newMem(), newMem(), newMem()
			_ = hackpadfs.Mkdir(root, "a", 0o755)
			_ = hackpadfs.MkdirAll(root, "ab/b", 0o755)
			m, _ := mount.NewFS(root)
			if err := m.AddMount("a", m1); err != nil {
				panic(err)
			}
			if err := m.AddMount("ab/b", m2); err != nil {
				panic(err)
			}
			return m, func() {}
		})
		runErr(r, k, "subos2", false, func() (hackpadfs.FS, func()) {
			fs, done := newOSWorld()
			if err := hackpadfs.MkdirAll(fs, "x/ab", 0o777); err != nil {
				panic(err)
			}
			_ = hackpadfs.Chmod(fs, "x/ab", 0o777)
			sub, err := hackpadfs.Sub(fs, "x/ab")
			if err != nil {
				panic(err)
			}
			return sub, done
		})
	}
}

var c05NextID int

var sentinels = map[string]bool{"ENOENT": true, "EEXIST": true, "EISDIR": true, "ENOTDIR": true, "ENOTEMPTY": true, "EINVAL": true, "ECLOSED": true}

// errDiff compares the error of a failing call with the one os reports for the same failure (C05).
func errDiff(o Op, a, b *CErr) (string, string) {
	if a == nil || b == nil {
		return "", ""
	}
	wantKind := "P"
	if o.Kind == "rename" {
		wantKind = "L"
	}
	if a.Kind != wantKind {
		return fmt.Sprintf("error is not a %s-type error: %s", map[string]string{"P": "*PathError", "L": "*LinkError"}[wantKind], a), "type:" + a.Kind
	}
	if a.Kind == "P" && a.Path == "" || a.Kind == "L" && (a.Old == "" || a.New == "") {
		return "error has an empty path: " + a.String(), "path:empty"
	}
	if b.Kind == a.Kind {
		if a.Kind == "P" && a.Path != b.Path {
			return fmt.Sprintf("error path %q, os names %q", a.Path, b.Path), "path:differs"
		}
		if a.Kind == "L" && (a.Old != b.Old || a.New != b.New) {
			return fmt.Sprintf("error paths %q %q, os names %q %q", a.Old, a.New, b.Old, b.New), "path:differs"
		}
	}
	if sentinels[b.Cls] && a.Cls != b.Cls {
		return fmt.Sprintf("error class %s, os reports %s", a.Cls, b.Cls), "class:" + a.Cls + "-vs-" + b.Cls
	}
	return "", ""
}

// runErr: namespace histories biased to failing calls; every failing call's error is compared with os.
func runErr(r *Rng, n int, layer string, model bool, mk func() (hackpadfs.FS, func())) {
	cands := candidatePaths(nsNames, nsDepth)
	pre := ""
	if layer != "" {
		pre = layer + ":"
	}
	for id := 0; id < n; id++ {
		ops := genNS(r, false)
		implFS, implDone := mk()
		refFS, refDone := newOSWorld()
		if layer == "mount" {
			// the flat reference has plain directories where the mount points are
			_ = hackpadfs.Mkdir(refFS, "a", 0o755)
			_ = hackpadfs.MkdirAll(refFS, "ab/b", 0o755)
			_ = hackpadfs.Chmod(implFS, "a", 0o755)
			_ = hackpadfs.Chmod(implFS, "ab/b", 0o755)
		}
		impl := &World{FS: implFS}
		ref := &World{FS: refFS}
		c := &Case{ID: c05NextID, Kind: layer}
		c05NextID++
		cells := map[string]bool{}
		var items, opsC []string
		diverged := false
		for i, o := range ops {
			if layer != "" && o.Kind == "rename" {
				continue
			}
			if layer == "mount" && (o.Kind == "remove" || o.Kind == "removeall") && (o.P == "." || o.P == "a" || o.P == "ab" || o.P == "ab/b") {
				continue // removing a mount point or a directory that holds one: C03's finding, C06's business
			}
			a := impl.Apply(o)
			as := Snapshot(implFS, cands)
			opsC = append(opsC, o.coq())
			items = append(items, cPair(a.coq(), snapCoqFS(as)))
			c.Text = append(c.Text, fmt.Sprintf("%s -> %s", o, a))
			cells[o.Kind+"/"+outcome(a)] = true
			if diverged {
				continue
			}
			b := ref.Apply(o)
			bs := Snapshot(refFS, cands)
			if a.Kind == "err" && b.Kind == "err" {
				if d, sig := errDiff(o, a.Err, b.Err); d != "" {
					c.fail(fmt.Sprintf("%sstep %d (%s): %s [impl: %s | os: %s]", pre, i, o, d, a, b), pre+o.Kind+":"+sig)
				}
			} else if a.Kind == "err" {
				// failing where os succeeds is C01's concern; the error must still be typed and name a path
				if d, sig := errDiff(o, a.Err, a.Err); d != "" {
					c.fail(fmt.Sprintf("%sstep %d (%s): %s [impl: %s]", pre, i, o, d, a), pre+o.Kind+":"+sig)
				}
			}
			if snapDiffOS(as, bs) != "" {
				diverged = true
			}
		}
		impl.CloseAll()
		ref.CloseAll()
		implDone()
		refDone()
		for k := range cells {
			c.Cells = append(c.Cells, pre+k)
		}
		if model {
			c.Coq = cPair(cList(opsC), cList(items))
		}
		emit(c)
	}
}
