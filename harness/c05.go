package main

import (
	"fmt"

	"github.com/hack-pad/hackpadfs"
)

func init() {
	commands["C05"] = func(r *Rng, n int, replay string) { runErr(r, n, newMemWorld) }
}

var sentinels = map[string]bool{"ENOENT": true, "EEXIST": true, "EISDIR": true, "ENOTDIR": true, "ENOTEMPTY": true, "EINVAL": true, "ECLOSED": true}

// errDiff compares the error of a failing call with the one os reports for the same failure (C05).
func errDiff(o Op, a, b *CErr) (string, string) {
	if a == nil || b == nil {
		return "", ""
	}
	wantKind := "P"
	if o.Kind == "rename" {
		wantKind = "L"
	}
	if a.Kind != wantKind {
		return fmt.Sprintf("error is not a %s-type error: %s", map[string]string{"P": "*PathError", "L": "*LinkError"}[wantKind], a), "type:" + a.Kind
	}
	if a.Kind == "P" && a.Path == "" || a.Kind == "L" && (a.Old == "" || a.New == "") {
		return "error has an empty path: " + a.String(), "path:empty"
	}
	if b.Kind == a.Kind {
		if a.Kind == "P" && a.Path != b.Path {
			return fmt.Sprintf("error path %q, os names %q", a.Path, b.Path), "path:differs"
		}
		if a.Kind == "L" && (a.Old != b.Old || a.New != b.New) {
			return fmt.Sprintf("error paths %q %q, os names %q %q", a.Old, a.New, b.Old, b.New), "path:differs"
		}
	}
	if sentinels[b.Cls] && a.Cls != b.Cls {
		return fmt.Sprintf("error class %s, os reports %s", a.Cls, b.Cls), "class:" + a.Cls + "-vs-" + b.Cls
	}
	return "", ""
}

// runErr: namespace histories biased to failing calls; every failing call's error is compared with os.
func runErr(r *Rng, n int, mk func() (hackpadfs.FS, func())) {
	cands := candidatePaths(nsNames, nsDepth)
	for id := 0; id < n; id++ {
		ops := genNS(r, false)
		implFS, implDone := mk()
		refFS, refDone := newOSWorld()
		impl := &World{FS: implFS}
		ref := &World{FS: refFS}
		c := &Case{ID: id}
		cells := map[string]bool{}
		var items, opsC []string
		diverged := false
		for i, o := range ops {
			a := impl.Apply(o)
			as := Snapshot(implFS, cands)
			opsC = append(opsC, o.coq())
			items = append(items, cPair(a.coq(), snapCoqFS(as)))
			c.Text = append(c.Text, fmt.Sprintf("%s -> %s", o, a))
			cells[o.Kind+"/"+outcome(a)] = true
			if diverged {
				continue
			}
			b := ref.Apply(o)
			bs := Snapshot(refFS, cands)
			if a.Kind == "err" && b.Kind == "err" {
				if d, sig := errDiff(o, a.Err, b.Err); d != "" {
					c.fail(fmt.Sprintf("step %d (%s): %s [impl: %s | os: %s]", i, o, d, a, b), o.Kind+":"+sig)
				}
			} else if a.Kind == "err" {
				// failing where os succeeds is C01's concern; the error must still be typed and name a path
				if d, sig := errDiff(o, a.Err, a.Err); d != "" {
					c.fail(fmt.Sprintf("step %d (%s): %s [impl: %s]", i, o, d, a), o.Kind+":"+sig)
				}
			}
			if snapDiffOS(as, bs) != "" {
				diverged = true
			}
		}
		impl.CloseAll()
		ref.CloseAll()
		implDone()
		refDone()
		for k := range cells {
			c.Cells = append(c.Cells, k)
		}
		c.Coq = cPair(cList(opsC), cList(items))
		emit(c)
	}
}
