// Command hpverif is the implementation side of the correspondence check: it generates
// cases from one PRNG state (VERIF_SEED), runs them on the real hackpad/hackpadfs code
// built from /repo's working tree, evaluates the property's own oracle on the observed
// behaviour, and prints one JSON object per case (ops and observations rendered as Coq terms).
package main

import (
	"bufio"
	"encoding/json"
	"fmt"
	"os"
	"strconv"
)

// Case is one generated case with what the implementation did.
type Case struct {
	ID      int      `json:"id"`
	Kind    string   `json:"kind,omitempty"`  // generator stream / cell
	Text    []string `json:"text"`            // human-readable ops + observations
	Coq     string   `json:"coq"`             // Coq term: (input, observed)
	Oracle  string   `json:"oracle"`          // "" = property held on impl; otherwise what failed (first failure)
	Sig     string   `json:"sig,omitempty"`   // signature of the first failure (for known findings)
	Fails   []Fail   `json:"fails,omitempty"` // every failure found in this case (first one = Oracle/Sig)
	Cells   []string `json:"cells,omitempty"` // coverage cells hit (op/outcome classes)
	Trivial bool     `json:"trivial,omitempty"`
	CType   string   `json:"ctype,omitempty"` // Coq type of the case term, when not the property's default
	Check   string   `json:"check,omitempty"` // Coq check function, when not the property's default
}

// Fail is one property failure observed on the implementation.
type Fail struct {
	What string `json:"what"`
	Sig  string `json:"sig"`
}

func (c *Case) fail(what, sig string) {
	if c.Oracle == "" {
		c.Oracle, c.Sig = what, sig
	}
	c.Fails = append(c.Fails, Fail{what, sig})
}

var out *bufio.Writer

func emit(c *Case) {
	if c.Text == nil {
		c.Text = []string{}
		if c.Oracle != "" {
			c.Text = []string{c.Oracle}
		}
	}
	b, err := json.Marshal(c)
	if err != nil {
		panic(err)
	}
	out.Write(b)
	out.WriteByte('\n')
}

func main() {
	out = bufio.NewWriterSize(os.Stdout, 1<<20)
	defer out.Flush()
	if len(os.Args) < 2 {
		fmt.Fprintln(os.Stderr, "usage: hpverif <property> [n] [replay-file]")
		os.Exit(2)
	}
	seed := uint64(1)
	if s := os.Getenv("VERIF_SEED"); s != "" {
		if v, err := strconv.ParseUint(s, 10, 64); err == nil {
			seed = v
		}
	}
	n := 200
	if len(os.Args) > 2 {
		if v, err := strconv.Atoi(os.Args[2]); err == nil {
			n = v
		}
	}
	replay := ""
	if len(os.Args) > 3 {
		replay = os.Args[3]
	}
	cmd, ok := commands[os.Args[1]]
	if !ok {
		fmt.Fprintln(os.Stderr, "unknown property", os.Args[1])
		os.Exit(2)
	}
	cmd(NewRng(seed), n, replay)
}

var commands = map[string]func(r *Rng, n int, replay string){}
