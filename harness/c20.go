package main

import (
	"bufio"
	"bytes"
	"context"
	"fmt"
	"os"
	"os/exec"
	"path/filepath"
	"regexp"
	"strings"
	"sync"
	"time"
)

func init() { commands["C20"] = runC20 }

func harnessDir() string {
	if d := os.Getenv("VERIF_HARNESS_DIR"); d != "" {
		return d
	}
	exe, _ := os.Executable()
	return filepath.Join(filepath.Dir(filepath.Dir(exe)), "harness")
}

func runTestBinary(bin string, run string, timeout time.Duration, env ...string) (ok bool, out string) {
	ctx, cancel := context.WithTimeout(context.Background(), timeout)
	defer cancel()
	cmd := exec.CommandContext(ctx, bin, "-test.run", run, "-test.count=1")
	cmd.Env = append(os.Environ(), env...)
	var buf bytes.Buffer
	cmd.Stdout, cmd.Stderr = &buf, &buf
	err := cmd.Run()
	return err == nil, buf.String()
}

func runC20(r *Rng, n int, replay string) {
	dir := harnessDir()
	bin := filepath.Join(filepath.Dir(dir), "build", "fstestdev.test")
	build := exec.Command("go", "test", "-c", "-tags", "verif", "-o", bin, "./fstestdev")
	build.Dir = dir
	if outb, err := build.CombinedOutput(); err != nil {
		fmt.Fprintln(os.Stderr, "cannot build the fstest runner:", string(outb))
		os.Exit(3)
	}
	id := 0
	// the reference implementations
	for _, ref := range []string{"mem", "os"} {
		ok, out := runTestBinary(bin, "^TestReference$/^"+ref+"$", 120*time.Second)
		c := &Case{ID: id, Kind: "reference"}
		id++
		c.Text = []string{fmt.Sprintf("fstest.FS + fstest.File on the unmodified %s file system: pass=%v", ref, ok)}
		c.Cells = []string{"reference/" + ref}
		if !ok {
			c.fail(fmt.Sprintf("the suite reports a failure on the reference %s file system: %s", ref, lastFail(out)), "reference:"+ref)
		}
		emit(c)
	}
	// the catalogue
	_, list := runTestBinary(bin, "^TestListDeviants$", 60*time.Second)
	var names []string
	sc := bufio.NewScanner(strings.NewReader(list))
	for sc.Scan() {
		if strings.HasPrefix(sc.Text(), "DEVIANT ") {
			names = append(names, strings.TrimPrefix(sc.Text(), "DEVIANT "))
		}
	}
	if n < len(names) && os.Getenv("VERIF_TIER") != "thorough" {
		// quick tier: every single-behaviour deviant, and a seed-dependent sample of the sentinel-pair matrix ("-m")
		var core, matrix []string
		for _, nm := range names {
			if strings.HasSuffix(nm, "-m") {
				matrix = append(matrix, nm)
			} else {
				core = append(core, nm)
			}
		}
		for i := len(matrix) - 1; i > 0; i-- {
			j := r.Intn(i + 1)
			matrix[i], matrix[j] = matrix[j], matrix[i]
		}
		if k := n - len(core); k < 0 {
			matrix = nil
		} else if k < len(matrix) {
			matrix = matrix[:k]
		}
		names = append(core, matrix...)
	}
	type res struct {
		name string
		ok   bool
		out  string
	}
	results := make([]res, len(names))
	var wg sync.WaitGroup
	sem := make(chan struct{}, 12)
	for i, nm := range names {
		wg.Add(1)
		go func(i int, nm string) {
			defer wg.Done()
			sem <- struct{}{}
			ok, out := runTestBinary(bin, "^TestDeviants$/^"+regexp.QuoteMeta(nm)+"$", 120*time.Second)
			<-sem
			results[i] = res{nm, ok, out}
		}(i, nm)
	}
	wg.Wait()
	for _, rs := range results {
		c := &Case{ID: id, Kind: "deviant"}
		id++
		c.Text = []string{fmt.Sprintf("deviant %s: the suite %s", rs.name, map[bool]string{true: "PASSES (deviation not noticed)", false: "reports a failure"}[rs.ok])}
		c.Cells = []string{"deviant/" + strings.SplitN(rs.name, "-", 2)[0]}
		if rs.ok {
			c.fail(fmt.Sprintf("the suite accepts the deviant %q: a file system differing from mem.FS in this one behaviour passes fstest.FS and fstest.File", rs.name), "accepted:"+rs.name)
		} else if !strings.Contains(rs.out, "--- FAIL") && !strings.Contains(rs.out, "panic:") {
			c.fail(fmt.Sprintf("deviant %q: the runner failed without a test failure: %s", rs.name, lastFail(rs.out)), "runner:"+rs.name)
		}
		emit(c)
	}
	// the assertion layer: verdicts of the suite's own tree assertion vs the model
	_, out := runTestBinary(bin, "^TestAssertLayer$", 120*time.Second, fmt.Sprintf("VERIF_SEED=%d", r.Next()%100000))
	re := regexp.MustCompile(`^ASSERTCASE (\d+) mask=(\d+) verdict=(true|false) \| ?(.*)$`)
	sc = bufio.NewScanner(strings.NewReader(out))
	sc.Buffer(make([]byte, 1<<20), 1<<20)
	for sc.Scan() {
		m := re.FindStringSubmatch(strings.TrimSpace(sc.Text()))
		if m == nil {
			continue
		}
		var exp, act []string
		for _, item := range strings.Split(m[4], " ; ") {
			f := strings.Fields(item)
			if len(f) != 5 {
				continue
			}
			var size, mode uint64
			fmt.Sscan(f[2], &size)
			fmt.Sscan(f[3], &mode)
			term := fmt.Sprintf("(%s, mkEnt %s %s %s)", cStr(f[1]), cN(size), cN(mode), f[4])
			if f[0] == "E" {
				exp = append(exp, term)
			} else {
				act = append(act, term)
			}
		}
		var mask uint64
		fmt.Sscan(m[2], &mask)
		c := &Case{ID: id, Kind: "assert", Trivial: false}
		id++
		c.Text = []string{"tryAssertEqualFS " + m[0]}
		c.Cells = []string{"assert/mask" + m[2] + "/" + m[3]}
		c.Coq = fmt.Sprintf("(%s, %s, %s, %s)", cN(mask), cList(exp), cList(act), m[3])
		emit(c)
	}
}

func lastFail(out string) string {
	lines := strings.Split(out, "\n")
	var keep []string
	for _, l := range lines {
		if strings.Contains(l, "--- FAIL") || strings.Contains(l, "panic:") || strings.Contains(l, "Error") {
			keep = append(keep, strings.TrimSpace(l))
		}
	}
	if len(keep) > 6 {
		keep = keep[:6]
	}
	return strings.Join(keep, " | ")
}
