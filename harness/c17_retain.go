package main

import (
	"bytes"
	"context"
	"errors"
	"fmt"
	"io"
	"strings"
	"sync"

	"github.com/hack-pad/hackpadfs"
	"github.com/hack-pad/hackpadfs/keyvalue"
)

// retainStore is a keyvalue.Store that KEEPS the FileRecord it is handed by Set and hands the same object back from
// Get (the interface allows it; the in-memory store copies the fields out instead).  Only directory listings are
// answered from the store's keys.
type retainStore struct {
	mu   sync.Mutex
	recs map[string]keyvalue.FileRecord
}

type retainedRec struct {
	keyvalue.FileRecord
	s    *retainStore
	path string
}

func (r *retainedRec) ReadDirNames() ([]string, error) {
	if !r.Mode().IsDir() {
		return nil, hackpadfs.ErrNotDir
	}
	r.s.mu.Lock()
	defer r.s.mu.Unlock()
	prefix := r.path + "/"
	if r.path == "." {
		prefix = ""
	}
	var names []string
	for k := range r.s.recs {
		if strings.HasPrefix(k, prefix) {
			rest := strings.TrimPrefix(k, prefix)
			if rest != "" && !strings.Contains(rest, "/") && !(r.path == "." && rest == ".") {
				names = append(names, rest)
			}
		}
	}
	return names, nil
}

func (s *retainStore) Get(ctx context.Context, path string) (keyvalue.FileRecord, error) {
	s.mu.Lock()
	defer s.mu.Unlock()
	r, ok := s.recs[path]
	if !ok {
		return nil, hackpadfs.ErrNotExist
	}
	return &retainedRec{FileRecord: r, s: s, path: path}, nil
}

func (s *retainStore) Set(ctx context.Context, path string, src keyvalue.FileRecord) error {
	s.mu.Lock()
	defer s.mu.Unlock()
	if src == nil {
		delete(s.recs, path)
		return nil
	}
	if rr, ok := src.(*retainedRec); ok {
		src = rr.FileRecord
	}
	s.recs[path] = src
	return nil
}

// runC17Retaining: "closing one handle never changes another handle's validity" and "never panics" over a store that
// retains the records it is given: a handle that created, wrote, truncated or chmod-ed a file is closed, and the file is
// then used through a second handle (opened before or after the close) and by name.
func runC17Retaining(idBase int) {
	id := idBase
	type scen struct {
		name   string
		writer func(fs hackpadfs.FS) (hackpadfs.File, error) // handle A, after having done its work
		want   []byte
	}
	create := func(fs hackpadfs.FS) (hackpadfs.File, error) {
		return hackpadfs.OpenFile(fs, "f", hackpadfs.FlagReadWrite|hackpadfs.FlagCreate, 0o644)
	}
	scens := []scen{
		{"A creates f and writes hello", func(fs hackpadfs.FS) (hackpadfs.File, error) {
			f, err := create(fs)
			if err == nil {
				_, err = hackpadfs.WriteFile(f, []byte("hello"))
			}
			return f, err
		}, []byte("hello")},
		{"f exists (hello); A opens it read-write and overwrites two bytes", func(fs hackpadfs.FS) (hackpadfs.File, error) {
			_ = hackpadfs.WriteFullFile(fs, "f", []byte("hello"), 0o644)
			f, err := hackpadfs.OpenFile(fs, "f", hackpadfs.FlagReadWrite, 0)
			if err == nil {
				_, err = hackpadfs.WriteFile(f, []byte("HE"))
			}
			return f, err
		}, []byte("HEllo")},
		{"f exists (hello); A truncates it to 3", func(fs hackpadfs.FS) (hackpadfs.File, error) {
			_ = hackpadfs.WriteFullFile(fs, "f", []byte("hello"), 0o644)
			f, err := hackpadfs.OpenFile(fs, "f", hackpadfs.FlagReadWrite, 0)
			if err == nil {
				err = hackpadfs.TruncateFile(f, 3)
			}
			return f, err
		}, []byte("hel")},
		{"f exists (hello); A changes its mode through the handle", func(fs hackpadfs.FS) (hackpadfs.File, error) {
			_ = hackpadfs.WriteFullFile(fs, "f", []byte("hello"), 0o644)
			f, err := hackpadfs.OpenFile(fs, "f", hackpadfs.FlagReadWrite, 0)
			if err == nil {
				err = hackpadfs.ChmodFile(f, 0o600)
			}
			return f, err
		}, []byte("hello")},
	}
	for _, sc := range scens {
		for _, bBefore := range []bool{true, false} {
			c := &Case{ID: id, Kind: "retaining-store", Trivial: true}
			id++
			c.Cells = []string{"retaining-store"}
			st := &retainStore{recs: map[string]keyvalue.FileRecord{}}
			fs, err := keyvalue.NewFS(st)
			if err != nil {
				panic(err)
			}
			hdr := fmt.Sprintf("key-value FS over a store that retains its records; %s; handle B opened %s A is closed", sc.name, map[bool]string{true: "before", false: "after"}[bBefore])
			c.Text = []string{hdr}
			guard := func(what string, fn func() error) {
				defer func() {
					if e := recover(); e != nil {
						c.fail(fmt.Sprintf("%s: %s panicked: %v", hdr, what, e), "retaining-store:panic")
					}
				}()
				if err := fn(); err != nil {
					c.fail(fmt.Sprintf("%s: %s: %v", hdr, what, err), "retaining-store:"+strings.Fields(what)[0])
				}
			}
			var a, b hackpadfs.File
			guard("setup", func() error { var e error; a, e = sc.writer(fs); return e })
			if c.Oracle != "" || a == nil {
				emit(c)
				continue
			}
			if bBefore {
				guard("open B", func() error { var e error; b, e = fs.Open("f"); return e })
			}
			guard("close A", func() error { return a.Close() })
			if !bBefore {
				guard("open B", func() error { var e error; b, e = fs.Open("f"); return e })
			}
			if b != nil {
				guard("read through B", func() error {
					got, e := io.ReadAll(b)
					if e != nil {
						if errors.Is(e, hackpadfs.ErrClosed) {
							return fmt.Errorf("B reports it is closed: %v", e)
						}
						return e
					}
					if !bytes.Equal(got, sc.want) {
						return fmt.Errorf("B reads %q, the file holds %q", got, sc.want)
					}
					return nil
				})
				guard("stat through B", func() error { _, e := b.Stat(); return e })
				guard("close B", func() error { return b.Close() })
			}
			guard("stat by name", func() error { _, e := hackpadfs.Stat(fs, "f"); return e })
			guard("readfile by name", func() error {
				got, e := hackpadfs.ReadFile(fs, "f")
				if e == nil && !bytes.Equal(got, sc.want) {
					return fmt.Errorf("ReadFile gives %q, the file holds %q", got, sc.want)
				}
				return e
			})
			guard("second close of A", func() error {
				if e := a.Close(); !errors.Is(e, hackpadfs.ErrClosed) {
					return fmt.Errorf("a second Close of A returns %v", e)
				}
				return nil
			})
			emit(c)
		}
	}
}
