package main

import (
	"fmt"
	"path"
	"strings"

	"github.com/hack-pad/hackpadfs"
	"github.com/hack-pad/hackpadfs/mount"
)

func init() { commands["C07"] = runC07 }

// openOnly exposes nothing but Open (the minimal FS).
type openOnly struct{ fs hackpadfs.FS }

func (o openOnly) Open(name string) (hackpadfs.File, error) { return o.fs.Open(name) }

type c07Kind struct {
	id    string
	model bool
	// build returns the parent FS, the FS whose tree is snapshotted to compare effects, and cleanup
	build func() (parent hackpadfs.FS, snapOf func() []SnapEntry, done func())
	dirs  []string
}

func c07Prep(fs hackpadfs.FS) {
	_ = hackpadfs.MkdirAll(fs, "a/b", 0o755)
	_ = hackpadfs.Mkdir(fs, "ab", 0o700)
	_ = hackpadfs.WriteFullFile(fs, "a/b/b", []byte{1, 2}, 0o644)
	_ = hackpadfs.WriteFullFile(fs, "a/ab", []byte{3}, 0o600)
	_ = hackpadfs.WriteFullFile(fs, "b", []byte{4, 5, 6}, 0o644)
}

var c07PrepOps = []Op{
	{Kind: "mkdirall", P: "a/b", Perm: 0o755}, {Kind: "mkdir", P: "ab", Perm: 0o700},
	{Kind: "writefile", P: "a/b/b", Data: []byte{1, 2}, Perm: 0o644},
	{Kind: "writefile", P: "a/ab", Data: []byte{3}, Perm: 0o600},
	{Kind: "writefile", P: "b", Data: []byte{4, 5, 6}, Perm: 0o644},
}

func c07Kinds() []c07Kind {
	cands := candidatePaths(nsNames, 4)
	return []c07Kind{
		{"mem", true, func() (hackpadfs.FS, func() []SnapEntry, func()) {
			fs := newMem()
			c07Prep(fs)
			return fs, func() []SnapEntry { return Snapshot(fs, cands) }, func() {}
		}, []string{".", "a", "a/b", "ab"}},
		// the view's directory does not exist (yet): Sub does not look, and whatever creates it through the parent
		// (MkdirAll of dir/name) must be created the same way through the view
		{"mem-missing", false, func() (hackpadfs.FS, func() []SnapEntry, func()) {
			fs := newMem()
			c07Prep(fs)
			return fs, func() []SnapEntry { return Snapshot(fs, cands) }, func() {}
		}, []string{"ab/a", "a/a/b", "b/a"}},
		{"mount-in", false, func() (hackpadfs.FS, func() []SnapEntry, func()) {
			root, inner := newMem(), newMem()
			_ = hackpadfs.Mkdir(root, "a", 0o755)
			m, _ := mount.NewFS(root)
			_ = m.AddMount("a", inner)
			c07Prep(m)
			return m, func() []SnapEntry { return Snapshot(m, cands) }, func() {}
		}, []string{"a", "a/b"}}, // "a" is the mount point, "a/b" lies inside the mounted FS
		{"mount-above", false, func() (hackpadfs.FS, func() []SnapEntry, func()) {
			root, inner := newMem(), newMem()
			_ = hackpadfs.MkdirAll(root, "a/b", 0o755)
			m, _ := mount.NewFS(root)
			_ = m.AddMount("a/b", inner)
			c07Prep(m)
			return m, func() []SnapEntry { return Snapshot(m, cands) }, func() {}
		}, []string{"a", "."}}, // dir above the mount point a/b
		{"os", false, func() (hackpadfs.FS, func() []SnapEntry, func()) {
			fs, done := newOSWorld()
			c07Prep(fs)
			return fs, func() []SnapEntry { return Snapshot(fs, cands) }, done
		}, []string{".", "a", "a/b", "ab"}},
		{"minimal", false, func() (hackpadfs.FS, func() []SnapEntry, func()) {
			fs := newMem()
			c07Prep(fs)
			return openOnly{fs}, func() []SnapEntry { return Snapshot(fs, cands) }, func() {}
		}, []string{".", "a", "a/b"}},
	}
}

// subChain builds Sub(...Sub(fs, d1)..., dk) for dir = d1/.../dk, optionally in one step.
func subChain(fs hackpadfs.FS, dir string, nested bool) (hackpadfs.FS, error) {
	if !nested || dir == "." {
		return hackpadfs.Sub(fs, dir)
	}
	cur := fs
	for _, el := range strings.Split(dir, "/") {
		next, err := hackpadfs.Sub(cur, el)
		if err != nil {
			return nil, err
		}
		cur = next
	}
	return cur, nil
}

// toParent rewrites an op on the view into the op on the parent.
func toParent(o Op, dir string) Op {
	j := func(p string) string {
		if dir == "." {
			return p
		}
		if p == "." {
			return dir
		}
		return dir + "/" + p
	}
	o.P = j(o.P)
	if o.Kind == "rename" {
		o.Q = j(o.Q)
	}
	return o
}

// viewErr rewrites the parent's error paths into the view's namespace.
func viewPath(p, dir string) string {
	if dir == "." {
		return p
	}
	if p == dir {
		return "."
	}
	return strings.TrimPrefix(p, dir+"/")
}

func runC07(r *Rng, n int, replay string) {
	kinds := c07Kinds()
	for id := 0; id < n; id++ {
		k := kinds[id%len(kinds)]
		dir := k.dirs[r.Intn(len(k.dirs))]
		nested := r.Intn(3) == 0
		pa, snapA, doneA := k.build()
		pb, snapB, doneB := k.build()
		view, err := subChain(pa, dir, nested)
		c := &Case{ID: id, Kind: k.id}
		c.Text = append(c.Text, fmt.Sprintf("[%s] Sub(fs, %q) nested=%v", k.id, dir, nested))
		c.Cells = []string{k.id + "/" + dir}
		if err != nil {
			c.fail(fmt.Sprintf("[%s] Sub(%q) failed: %v", k.id, dir, err), k.id+":sub-failed")
			emit(c)
			doneA()
			doneB()
			continue
		}
		// a view cannot be left through Sub either: an invalid directory is refused, on the view and on the parent
		for _, bad := range []string{"..", "../x", "../" + path.Base(dir), "a/../b", "x/../../y", "", "/a", "a/", "./a", "a//b"} {
			for wi, on := range []hackpadfs.FS{view, pa} {
				_, e := hackpadfs.Sub(on, bad)
				where := []string{"the view", "the parent"}[wi]
				switch {
				case e == nil:
					c.fail(fmt.Sprintf("[%s] Sub(fs, %q): Sub(%s, %q) was accepted", k.id, dir, where, bad), k.id+":sub-of-view:accepted")
				case classOf(e) != "EINVAL":
					c.fail(fmt.Sprintf("[%s] Sub(fs, %q): Sub(%s, %q) failed with %v, not ErrInvalid", k.id, dir, where, bad, e), k.id+":sub-of-view:class")
				}
			}
		}
		va := &World{FS: view}
		wb := &World{FS: pb}
		ops := genNS(r, false)
		var opsC, items []string
		for i, o := range ops {
			valid := hackpadfs.ValidPath(o.P) && (o.Kind != "rename" || hackpadfs.ValidPath(o.Q))
			if !valid {
				continue
			}
			a := va.Apply(o)
			po := toParent(o, dir)
			b := wb.Apply(po)
			c.Text = append(c.Text, fmt.Sprintf("view: %s -> %s   | parent: %s -> %s", o, a, po, b))
			if k.model {
				opsC = append(opsC, o.coq())
				items = append(items, cPair(a.coq(), snapCoqFS(snapA())))
			}
			layer := k.id
			if k.id == "mount-above" {
				// the one known defect of this layer: the view is built on the file system that owns dir, so whatever is
				// mounted at a/b below it is invisible.  Only operations naming a/b or something below it are affected.
				under := func(p string) bool { return p == "a/b" || strings.HasPrefix(p, "a/b/") }
				above := func(p string) bool { return p == "a" || p == "." }
				switch {
				case under(po.P) || (po.Kind == "rename" && under(po.Q)):
					layer = "mount-above:hidden"
				case po.Kind == "readdir" && po.P == "a": // lists the entry "b": the covered directory vs the mounted root
					layer = "mount-above:hidden"
				case (po.Kind == "removeall" || po.Kind == "rename") && (above(po.P) || (po.Kind == "rename" && above(po.Q))):
					layer = "mount-above:hidden" // walks or moves the directory that holds the mount point
				}
			}
			fail := func(sig, f string, args ...interface{}) {
				c.fail(fmt.Sprintf("[%s] Sub(%q) step %d: view %s -> %s, parent %s -> %s: ", k.id, dir, i, o, a, po, b)+fmt.Sprintf(f, args...), layer+":"+sig)
			}
			if a.Kind == "panic" {
				fail(o.Kind+":panic", "panicked")
				break
			}
			// same result
			bb := b
			if b.Err != nil {
				e := *b.Err
				e.Path, e.Old, e.New = viewPath(e.Path, dir), viewPath(e.Old, dir), viewPath(e.New, dir)
				if e.Kind != "P" {
					e.Path = ""
				}
				if e.Kind != "L" {
					e.Old, e.New = "", ""
				}
				bb.Err = &e
			}
			if o.P == "." && a.Kind == "info" {
				bb.Name, a.Name = "", "" // the view's root is called "." in the view and by its own name in the parent
			}
			stop := false
			switch {
			case a.failed() != bb.failed():
				fail(o.Kind+":success:"+outcome(a)+"-vs-"+outcome(bb), "success differs")
				stop = true
			case a.coq() != bb.coq() && !(a.Kind == "err" && bb.Kind == "err" && a.Err.Cls == bb.Err.Cls && a.Err.Cls == "ENOSYS"):
				if a.Kind == "err" && bb.Kind == "err" && a.Err.Cls == bb.Err.Cls && a.Err.Kind == "P" && bb.Err.Kind == "P" && bb.Err.Path == "." && a.Err.Path == dir && dir != "." {
					// the error is about the view's own base directory (it is a file, say): the view names it by its path in the parent
					fail(o.Kind+":base-named-in-the-parents-namespace", "the error names the view's base by its path in the parent (%q) instead of %q", dir, ".")
				} else {
					fail(o.Kind+":result:"+outcome(a)+"-vs-"+outcome(bb), "result differs")
				}
			}
			if stop {
				break // from here on the two worlds are in different states
			}
			// same effect on the parent; in particular nothing outside dir changed differently
			if d := snapDiffExact(snapA(), snapB()); d != "" {
				fail(o.Kind+":effect", "effect on the underlying file system differs: %s", d)
				break
			}
		}
		va.CloseAll()
		wb.CloseAll()
		doneA()
		doneB()
		if k.model {
			var prep []string
			for _, o := range c07PrepOps {
				prep = append(prep, o.coq())
			}
			c.Coq = fmt.Sprintf("(%s, %s, %s, %s)", cStr(dir), cList(prep), cList(opsC), cList(items))
		}
		emit(c)
	}
}
