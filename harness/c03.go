package main

import (
	"fmt"
	"sort"
	"strings"
	"time"

	"github.com/hack-pad/hackpadfs"
	"github.com/hack-pad/hackpadfs/mount"
)

func init() { commands["C03"] = runC03 }

// treeInvariant evaluates C03's invariant on fs over the closure of candidate paths.
func treeInvariant(fs hackpadfs.FS, cands []string) (bad string) {
	defer func() {
		if e := recover(); e != nil {
			bad = fmt.Sprint("panic while checking the invariant: ", e)
		}
	}()
	root, err := hackpadfs.Stat(fs, ".")
	if err != nil {
		return "the root does not exist: " + err.Error()
	}
	if !root.IsDir() {
		return "the root is not a directory"
	}
	listing := func(dir string) (map[string]int, map[string]bool, error) {
		es, err := hackpadfs.ReadDir(fs, dir)
		if err != nil {
			return nil, nil, err
		}
		count := map[string]int{}
		isDir := map[string]bool{}
		for _, e := range es {
			count[e.Name()]++
			isDir[e.Name()] = e.IsDir()
		}
		return count, isDir, nil
	}
	for _, p := range cands {
		info, err := hackpadfs.Stat(fs, p)
		if err != nil {
			continue
		}
		// opened handle agrees on the kind
		f, err := fs.Open(p)
		if err != nil {
			return fmt.Sprintf("%q can be Stat'ed but not opened: %v", p, err)
		}
		hinfo, err := f.Stat()
		_ = f.Close()
		if err != nil {
			return fmt.Sprintf("%q: handle Stat fails: %v", p, err)
		}
		if hinfo.IsDir() != info.IsDir() {
			return fmt.Sprintf("%q: kind differs between Stat and the opened handle", p)
		}
		if p != "." {
			par := parentOf(p)
			pinfo, err := hackpadfs.Stat(fs, par)
			if err != nil {
				return fmt.Sprintf("%q exists but its parent %q does not (orphan)", p, par)
			}
			if !pinfo.IsDir() {
				return fmt.Sprintf("%q exists below %q, which is not a directory", p, par)
			}
			count, isDir, err := listing(par)
			if err != nil {
				return fmt.Sprintf("parent %q of %q cannot be listed: %v", par, p, err)
			}
			base := p
			if par != "." {
				base = p[len(par)+1:]
			}
			if count[base] == 0 {
				return fmt.Sprintf("%q exists but the listing of %q does not contain it (hidden entry)", p, par)
			}
			if count[base] > 1 {
				return fmt.Sprintf("%q appears %d times in the listing of %q", p, count[base], par)
			}
			if isDir[base] != info.IsDir() {
				return fmt.Sprintf("%q: kind differs between listing and Stat", p)
			}
		}
		if info.IsDir() {
			count, _, err := listing(p)
			if err != nil {
				return fmt.Sprintf("directory %q cannot be listed: %v", p, err)
			}
			names := make([]string, 0, len(count))
			for n := range count {
				names = append(names, n)
			}
			sort.Strings(names)
			for _, n := range names {
				if count[n] > 1 {
					return fmt.Sprintf("%q appears %d times in the listing of %q", n, count[n], p)
				}
				if _, err := hackpadfs.Stat(fs, joinP(p, n)); err != nil {
					return fmt.Sprintf("listed entry %q of %q cannot be Stat'ed: %v", n, p, err)
				}
			}
		}
	}
	return ""
}

type c03Layer struct {
	id    string
	name  string
	build func() (fs hackpadfs.FS, views []hackpadfs.FS)
	model bool
}

// c03SetupErr is set by a layer's build function when the composition itself cannot be set up
var c03SetupErr string

func c03Layers() []c03Layer {
	return []c03Layer{
		{"mem", "mem", func() (hackpadfs.FS, []hackpadfs.FS) { fs := newMem(); return fs, []hackpadfs.FS{fs} }, true},
		{"kvplain", "kv(plain store)", func() (hackpadfs.FS, []hackpadfs.FS) { fs, _ := newKVPlain(); return fs, []hackpadfs.FS{fs} }, true},
		{"mount", "mount(mem; a=mem, ab/b=mem)", func() (hackpadfs.FS, []hackpadfs.FS) {
			root, m1, m2 := newMem(), newMem(), newMem()
			_ = hackpadfs.Mkdir(root, "a", 0o755)
			_ = hackpadfs.MkdirAll(root, "ab/b", 0o755)
			m, _ := mount.NewFS(root)
			if err := m.AddMount("a", m1); err != nil {
				c03SetupErr = fmt.Sprintf("AddMount(%q) on a mount FS whose root has the directories a and ab/b failed: %v", "a", err)
			}
			if err := m.AddMount("ab/b", m2); err != nil {
				c03SetupErr = fmt.Sprintf("AddMount(%q) on a mount FS whose root has the directories a and ab/b, after mounting at %q, failed: %v (the directory exists in the root file system, where this path routes)", "ab/b", "a", err)
			}
			return m, []hackpadfs.FS{m, root, m1, m2}
		}, false},
		{"sub", "sub(mem, a)", func() (hackpadfs.FS, []hackpadfs.FS) {
			base := newMem()
			_ = hackpadfs.Mkdir(base, "a", 0o755)
			sub, err := hackpadfs.Sub(base, "a")
			if err != nil {
				panic(err)
			}
			return sub, []hackpadfs.FS{sub, base}
		}, false},
	}
}

func runC03(r *Rng, n int, replay string) {
	cands := candidatePaths(nsNames, nsDepth)
	layers := c03Layers()
	for id := 0; id < n; id++ {
		l := layers[id%len(layers)]
		ops := genNS(r, true)
		cands := withNamedPaths(cands, ops)
		c03SetupErr = ""
		fs, views := l.build()
		w := &World{FS: fs}
		c := &Case{ID: id, Kind: l.name}
		if c03SetupErr != "" {
			c.Text = []string{c03SetupErr}
			c.fail(c03SetupErr, l.id+":setup")
			emit(c)
			continue
		}
		cells := map[string]bool{}
		var opsC, items []string
		for i, o := range ops {
			var a Obs
			done := make(chan struct{})
			go func() {
				defer close(done)
				a = w.Apply(o)
			}()
			select {
			case <-done:
			case <-time.After(5 * time.Second):
				c.Text = append(c.Text, fmt.Sprintf("%s -> DID NOT RETURN", o))
				c.fail(fmt.Sprintf("[%s] step %d (%s): the operation does not terminate", l.name, i, o), l.id+":"+o.Kind+":hang")
				emit(c)
				out.Flush()
				panic("operation did not return; aborting the harness run")
			}
			c.Text = append(c.Text, fmt.Sprintf("%s -> %s", o, a))
			cells[o.Kind+"/"+outcome(a)] = true
			if l.model {
				opsC = append(opsC, o.coq())
				items = append(items, cPair(a.coq(), snapCoqFS(Snapshot(fs, cands))))
			}
			if a.Kind == "panic" {
				c.fail(fmt.Sprintf("[%s] step %d (%s): panicked: %s", l.name, i, o, a.Err.Path), l.id+":"+o.Kind+":panic")
				break
			}
			for vi, v := range views {
				if bad := treeInvariant(v, cands); bad != "" {
					tag := l.id
					switch l.id {
					case "mount":
						// the known defect of this layer: removing or renaming a mount point or a directory that holds one
						covers := func(p string) bool { return p == "." || p == "a" || p == "ab" || p == "ab/b" }
						if (o.Kind == "remove" || o.Kind == "removeall" || o.Kind == "rename") && (covers(o.P) || (o.Kind == "rename" && covers(o.Q))) {
							tag = "mount:covers-point"
						}
					case "sub":
						if (o.Kind == "remove" || o.Kind == "removeall") && o.P == "." {
							tag = "sub:view-root" // the known defect: the view removes its own root
						}
					}
					c.fail(fmt.Sprintf("[%s, view %d] after step %d (%s -> %s): %s", l.name, vi, i, o, a, bad), tag+":"+o.Kind+":invariant")
					break
				}
			}
			if c.Oracle != "" {
				break
			}
		}
		w.CloseAll()
		for k := range cells {
			c.Cells = append(c.Cells, k)
		}
		if l.model && c.Oracle == "" {
			c.Coq = cPair(cList(opsC), cList(items))
		}
		emit(c)
	}
}

// withNamedPaths extends the candidate closure by every path a history names (names outside the usual alphabet, such
// as dot names), their ancestors, and where a Rename may have carried them: an orphan is only visible to someone who
// knows its name.
func withNamedPaths(cands []string, ops []Op) []string {
	set := map[string]bool{}
	for _, c := range cands {
		set[c] = true
	}
	add := func(p string) {
		if !hackpadfs.ValidPath(p) {
			return
		}
		for q := p; q != "."; q = parentOf(q) {
			set[q] = true
		}
	}
	for _, o := range ops {
		add(o.P)
		if o.Kind == "rename" {
			add(o.Q)
		}
	}
	for round := 0; round < 2; round++ {
		for _, o := range ops {
			if o.Kind != "rename" || !hackpadfs.ValidPath(o.P) || !hackpadfs.ValidPath(o.Q) || o.P == "." {
				continue
			}
			var moved []string
			for k := range set {
				if strings.HasPrefix(k, o.P+"/") && depthOf(o.Q+k[len(o.P):]) <= nsDepth+2 {
					moved = append(moved, o.Q+k[len(o.P):])
				}
			}
			for _, m := range moved {
				add(m)
			}
		}
	}
	out := make([]string, 0, len(set))
	for k := range set {
		out = append(out, k)
	}
	sort.Strings(out)
	return out
}
