#!/bin/bash
# run_coqchk.sh: clean rebuild of a copy of /verif/coq in /var/tmp/coqchk (rsync the .v files there and delete *.vo first), then coqchk -o over every module; result in /var/tmp/coqchk_new.txt, copied by hand into evidence/coqchk.txt after comparing the sources with cmp
cd /var/tmp/coqchk
coq_makefile -f _CoqProject -o Makefile >/dev/null
make -j6 >/var/tmp/coqchk_build.log 2>&1 || { echo "BUILD FAILED" > /var/tmp/coqchk_new.txt; exit 1; }
mods=$(grep "\.v$" _CoqProject | sed 's#/#.#g; s#\.v$##; s#^#HP.#' | tr '\n' ' ')
( time coqchk -silent -o -Q . HP $mods ) > /var/tmp/coqchk_new.txt 2>&1
echo "rc=$?" >> /var/tmp/coqchk_new.txt
echo done >> /var/tmp/coqchk_new.txt
