#!/bin/bash
# seed_all.sh [<tag> ...] : regression over the stored seeded changes: each patch is applied to /repo, the quick check of
# its property (the first three characters of the tag) is run, /repo is restored.  Prints one line per seed and a
# summary; exits 1 if a seed is not caught or no longer applies.  Needs a clean /repo and no other ./check running.
set -u
cd /verif
if [ -n "$(git -C /repo status --porcelain)" ]; then echo "/repo not clean"; exit 2; fi
tags=("$@")
if [ ${#tags[@]} -eq 0 ]; then tags=($(ls seeded | grep -v RESULTS.md)); fi
missed=0; stale=0; n=0
for t in "${tags[@]}"; do
  p=${t:0:3}
  n=$((n+1))
  if ! git -C /repo apply --check seeded/$t/patch.diff 2>/dev/null; then echo "$t: STALE (patch does not apply)"; stale=$((stale+1)); continue; fi
  git -C /repo apply seeded/$t/patch.diff
  out=$(VERIF_EVIDENCE_DIR=/verif/build/evidence-seeded ./check $p --tier quick 2>&1); rc=$?
  git -C /repo checkout -- .
  if [ $rc -eq 1 ] && echo "$out" | grep -q "^VIOLATION property=$p"; then
    echo "$t: caught ($(echo "$out" | grep '^VIOLATION' | head -1 | sed 's/.*replay=[^ ]* *//;s/^$/failing input/'))"
  else
    echo "$t: MISSED (exit $rc)"; missed=$((missed+1))
  fi
done
echo "seeds: $n, missed: $missed, stale: $stale"
[ $missed -eq 0 ] && [ $stale -eq 0 ]
