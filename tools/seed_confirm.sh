#!/bin/bash
# seed_confirm.sh <id> [<tag>] : confirm a sub-agent's seeded change in its scratch worktree /tmp/seed-<id>
#  (a) existing suite passes with the change, (b) demo fails with the change, (c) demo passes without it
# then store it as /verif/seeded/<tag>/ (patch.diff, demo_test.go.txt, meta.json).
set -u
id=$1; tag=${2:-$1}
wt=/tmp/seed-$id
export GOFLAGS=-mod=mod GOPROXY=off GOSUMDB=off GOTOOLCHAIN=local
cd $wt || exit 2
demo=$(git status --short | awk '/^\?\? .*_test\.go$/ {print $2}' | head -1)
[ -n "$demo" ] || { echo "no demo test found"; exit 2; }
pkg=./$(dirname $demo)
git diff > /tmp/seed-$id.patch.check
if ! diff -q <(git diff) patch.diff >/dev/null; then echo "note: patch.diff differs from git diff; using git diff"; git diff > patch.diff; fi
mv $demo /tmp/seed-$id.demo.go
echo "== (a) suite with change"
if go test -vet=off -count=1 ./... > /tmp/seed-$id.a.log 2>&1; then echo "a: PASS"; else echo "a: FAIL"; tail -20 /tmp/seed-$id.a.log; fi
mv /tmp/seed-$id.demo.go $demo
echo "== (b) demo with change (expect FAIL)"
if go test -vet=off -count=1 $pkg > /tmp/seed-$id.b.log 2>&1; then echo "b: PASS (unexpected)"; else echo "b: FAIL (expected)"; grep -m5 -- "--- FAIL\|panic" /tmp/seed-$id.b.log; fi
git apply -R patch.diff
echo "== (c) demo without change (expect PASS)"
if go test -vet=off -count=1 $pkg > /tmp/seed-$id.c.log 2>&1; then echo "c: PASS (expected)"; else echo "c: FAIL (unexpected)"; tail -20 /tmp/seed-$id.c.log; fi
git apply patch.diff
mkdir -p /verif/seeded/$tag
cp patch.diff /verif/seeded/$tag/patch.diff
cp $demo /verif/seeded/$tag/demo_test.go.txt
cp meta.json /verif/seeded/$tag/meta.json
rm -f /tmp/seed-$id.*.log /tmp/seed-$id.patch.check
echo "stored /verif/seeded/$tag"
