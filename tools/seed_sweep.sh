#!/bin/bash
# sweep.sh <seed> : all 20 quick checks with another seed on a copy of /verif against the committed /repo
seed=$1
work=/var/tmp/sw$seed
mkdir -p $work
rsync -a --delete --exclude .git --exclude replay --exclude build/cases --exclude seeded /verif/ $work/verif/
mkdir -p $work/verif/replay
cd $work/verif
for i in 19 01 02 03 04 05 06 07 08 09 10 11 12 13 14 15 16 17 18 20; do
  VERIF_SEED=$seed VERIF_EVIDENCE_DIR=$work/verif/build/ev ./check C$i --tier quick 2>&1 | grep -v "^KNOWN" | tail -1
done
