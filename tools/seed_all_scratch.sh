#!/bin/bash
# seed_all_scratch.sh <workdir> [<tag> ...] : the regression of seed_all.sh on scratch copies (never touches /repo or
# /verif): <workdir>/repo is a copy of /repo, <workdir>/verif a copy of /verif; each stored patch is applied to the copy,
# the quick check of its property runs there with VERIF_REPO pointing at it, the copy is restored.
set -u
work=$1; shift
mkdir -p $work
# (the committed state of /repo, not its working tree: somebody may be trying a patch there right now)
fresh_repo() { rm -rf $work/repo; mkdir -p $work/repo; git -C /repo archive HEAD | tar -x -C $work/repo; }
fresh_repo
rsync -a --delete --exclude .git --exclude replay --exclude build/cases /verif/ $work/verif/
mkdir -p $work/verif/replay
tags=("$@")
if [ ${#tags[@]} -eq 0 ]; then tags=($(ls /verif/seeded | grep -v RESULTS.md)); fi
missed=0; stale=0; n=0
for t in "${tags[@]}"; do
  p=${t:0:3}; n=$((n+1))
  fresh_repo
  if ! (cd $work/repo && patch -p1 --dry-run -s < /verif/seeded/$t/patch.diff >/dev/null 2>&1); then echo "$t: STALE (patch does not apply)"; stale=$((stale+1)); continue; fi
  (cd $work/repo && patch -p1 -s < /verif/seeded/$t/patch.diff)
  out=$(cd $work/verif && VERIF_REPO=$work/repo VERIF_EVIDENCE_DIR=$work/verif/build/evidence-seeded ./check $p --tier quick 2>&1); rc=$?
  if [ $rc -eq 1 ] && echo "$out" | grep -q "^VIOLATION property=$p"; then
    echo "$t: caught ($(echo "$out" | grep '^VIOLATION' | head -1 | sed 's/.*replay=[^ ]* *//;s/^$/failing input/'))"
  else
    echo "$t: MISSED (exit $rc)"; missed=$((missed+1))
  fi
done
echo "seeds: $n, missed: $missed, stale: $stale"
[ $missed -eq 0 ] && [ $stale -eq 0 ]
