#!/usr/bin/env python3
"""Mutation campaign: how many small syntactic changes to hack-pad/hackpadfs that still compile and still pass the
repository's own test suite do the quick checks catch?

Runs entirely on scratch copies (never touches /repo or /verif):
    tools/mutate.py --work /var/tmp/mut --count 200 --seed 1 [--files keyvalue/fs.go,...]
  * <work>/repo   : a copy of /repo's working tree (mutated in place, one mutant at a time, restored afterwards)
  * <work>/verif  : a copy of /verif including the compiled Coq development (checks run there with VERIF_REPO=<work>/repo)
  * <work>/results.jsonl : one line per mutant (file, line, operator, before/after, verdict, which check caught it)
Verdicts: nocompile | killed-by-suite (the repository's tests fail: ordinary use exposes it) | caught:<Cxx> | SURVIVED.
A survivor is either an equivalent mutant (behaviour unchanged) or a gap in the checks; they are triaged by hand and the
outcome is recorded in DESIGN.md.  This is a test of the checks, not part of any check.
"""
import argparse, json, os, random, re, shutil, subprocess, sys, time

ap = argparse.ArgumentParser()
ap.add_argument("--work", default="/var/tmp/mut")
ap.add_argument("--count", type=int, default=100)
ap.add_argument("--seed", type=int, default=1)
ap.add_argument("--files", default="")
ap.add_argument("--all-checks", action="store_true", help="run every mapped check even after one caught it")
args = ap.parse_args()

WORK = args.work
REPO = os.path.join(WORK, "repo")
VERIF = os.path.join(WORK, "verif")
GOENV = dict(os.environ, GOFLAGS="-mod=mod", GOPROXY="off", GOSUMDB="off", GOTOOLCHAIN="local")

def sh(cmd, cwd=None, env=None, timeout=1800):
    try:
        p = subprocess.run(cmd, cwd=cwd, env=env, stdout=subprocess.PIPE, stderr=subprocess.STDOUT, text=True, timeout=timeout)
        return p.returncode, p.stdout
    except subprocess.TimeoutExpired as e:
        return 124, (e.stdout or b"").decode("utf-8", "replace") if isinstance(e.stdout, bytes) else (e.stdout or "")

def setup():
    os.makedirs(WORK, exist_ok=True)
    # the committed state of /repo (its working tree may carry a patch somebody is trying right now)
    shutil.rmtree(REPO, ignore_errors=True)
    os.makedirs(REPO, exist_ok=True)
    subprocess.run("git -C /repo archive HEAD | tar -x -C " + REPO, shell=True, check=True)
    sh(["rsync", "-a", "--delete", "--exclude", ".git", "--exclude", "replay", "--exclude", "seeded", "--exclude", "build/cases",
        "/verif/", VERIF + "/"])
    os.makedirs(os.path.join(VERIF, "replay"), exist_ok=True)

file_props = {}
for l in open("/verif/properties.jsonl"):
    p = json.loads(l)
    for f in p["anchors"]["files"]:
        file_props.setdefault(f, []).append(p["id"])

DEFAULT_FILES = ["keyvalue/fs.go", "keyvalue/file.go", "keyvalue/file_rwonly.go", "keyvalue/txn_store.go", "keyvalue/record.go",
                 "keyvalue/blob/bytes.go", "keyvalue/blob/blob.go", "mem/store.go", "mem/fs.go", "mount/fs.go", "mount.go", "sub.go",
                 "fs.go", "file.go", "cache/fs.go", "cache/dir.go", "os/path.go", "os/fs.go", "tar/fs.go", "tar/pubsub.go",
                 "fstest/assert.go", "internal/pathlock/lock.go"]

# (name, regex, replacement) applied to ONE occurrence on one line; comments and strings are skipped crudely
OPS = [
    ("eq->ne", r"(?<![=!<>])==(?!=)", "!="),
    ("ne->eq", r"!=", "=="),
    ("lt->le", r"(?<![<\-])<(?![=<\-])", "<="),
    ("le->lt", r"<=", "<"),
    ("gt->ge", r"(?<![>\-=])>(?![=>])", ">="),
    ("ge->gt", r">=", ">"),
    ("and->or", r"&&", "||"),
    ("or->and", r"\|\|", "&&"),
    ("drop-not", r"!(?=[A-Za-z_(])", ""),
    ("plus1->0", r"\+ ?1\b", "+ 0"),
    ("minus1->0", r"- ?1\b", "- 0"),
    ("err->nil", r"return (.*, )?err$", lambda m: "return " + (m.group(1) or "") + "nil"),
    ("0->1", r"(?<![\w.])0(?![\w.])", "1"),
    ("true<->false", r"\btrue\b", "false"),
    ("false<->true", r"\bfalse\b", "true"),
]

def candidates(path):
    out = []
    src = open(os.path.join(REPO, path)).read().split("\n")
    in_block = False
    for i, line in enumerate(src):
        s = line.strip()
        if s.startswith("/*"):
            in_block = True
        if in_block:
            if "*/" in s:
                in_block = False
            continue
        if not s or s.startswith("//") or s.startswith("import") or s.startswith("package") or s.startswith('"'):
            continue
        code = line.split("//")[0]
        # mask string literals
        masked = re.sub(r'"(\\.|[^"\\])*"', lambda m: '"' + "_" * (len(m.group(0)) - 2) + '"', code)
        for name, rx, rep in OPS:
            for m in re.finditer(rx, masked.rstrip()):
                new = code[:m.start()] + (rep(m) if callable(rep) else rep) + code[m.end():]
                if new != code:
                    out.append((path, i, name, line, new + line[len(code):]))
    return out

def main():
    setup()
    files = [f for f in (args.files.split(",") if args.files else DEFAULT_FILES) if f]
    cands = []
    for f in files:
        cands += candidates(f)
    rnd = random.Random(args.seed)
    rnd.shuffle(cands)
    done = set()
    resf = os.path.join(WORK, "results.jsonl")
    if os.path.exists(resf):
        for l in open(resf):
            r = json.loads(l)
            done.add((r["file"], r["line"], r["op"], r["after"]))
    n = 0
    for path, i, op, before, after in cands:
        if n >= args.count:
            break
        if (path, i + 1, op, after.strip()) in done:
            continue
        n += 1
        full = os.path.join(REPO, path)
        orig = open(full).read()
        lines = orig.split("\n")
        lines[i] = after
        open(full, "w").write("\n".join(lines))
        rec = dict(file=path, line=i + 1, op=op, before=before.strip(), after=after.strip(), t=time.strftime("%H:%M:%S"))
        try:
            rc, out = sh(["go", "build", "-tags", "verif", "./..."], cwd=REPO, env=GOENV, timeout=300)
            if rc != 0:
                rec["verdict"] = "nocompile"
                continue
            rc, out = sh(["go", "vet", "-tags", "verif", "./" + os.path.dirname(path)], cwd=REPO, env=GOENV, timeout=300)
            rc, out = sh(["go", "test", "-vet=off", "-count=1", "./..."], cwd=REPO, env=GOENV, timeout=900)
            if rc != 0:
                rec["verdict"] = "killed-by-suite"
                continue
            props = file_props.get(path, [])
            caught = []
            for pid in props:
                env = dict(os.environ, VERIF_REPO=REPO, VERIF_EVIDENCE_DIR=os.path.join(VERIF, "build", "evidence-mut"))
                rc, out = sh(["./check", pid, "--tier", "quick"], cwd=VERIF, env=env, timeout=2400)
                viol = [l for l in out.splitlines() if l.startswith("VIOLATION")]
                if rc != 0 or viol:
                    caught.append(pid + (":nfi" if viol and viol[0].endswith("no-failing-input-found") else ""))
                    if not args.all_checks:
                        break
            rec["checks"] = props
            rec["verdict"] = ("caught:" + ",".join(caught)) if caught else "SURVIVED"
        finally:
            open(full, "w").write(orig)
            with open(resf, "a") as f:
                f.write(json.dumps(rec) + "\n")
            print(rec.get("verdict"), path, i + 1, op, "|", rec["before"][:70], "=>", rec["after"][:70], flush=True)

main()
