#!/bin/bash
# seed_try.sh <tag> <Cxx> [<Cyy> ...] : apply /verif/seeded/<tag>/patch.diff to /repo, run the quick checks named,
# print each check's verdict, and always restore /repo afterwards.
set -u
tag=$1; shift
cd /verif
if [ -n "$(git -C /repo status --porcelain)" ]; then echo "/repo not clean"; exit 2; fi
git -C /repo apply /verif/seeded/$tag/patch.diff || exit 2
trap 'git -C /repo checkout -- . ; git -C /repo status --porcelain' EXIT
for p in "$@"; do
  out=$(VERIF_EVIDENCE_DIR=/verif/build/evidence-seeded ./check $p --tier quick 2>&1); rc=$?
  echo "--- $tag vs $p: exit=$rc"
  echo "$out" | grep -E "^VIOLATION|^KNOWN-FINDING|^  (oracle|mismatch|proof)" | head -8
done
