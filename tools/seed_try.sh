#!/bin/bash
# seed_try.sh <tag> <Cxx> [<Cyy> ...] : run the quick checks named against a stored seeded change, on scratch copies
# (/var/tmp/st/repo = the committed state of /repo with the patch applied, /var/tmp/st/verif = a copy of /verif as it is
# now, checks run there with VERIF_REPO pointing at the patched copy).  Neither /repo nor /verif is touched.
set -u
tag=$1; shift
work=/var/tmp/st
rm -rf $work/repo; mkdir -p $work/repo
git -C /repo archive HEAD | tar -x -C $work/repo
rsync -a --delete --exclude .git --exclude replay --exclude build/cases --exclude seeded /verif/ $work/verif/
mkdir -p $work/verif/replay
(cd $work/repo && git apply /verif/seeded/$tag/patch.diff) || { echo "patch does not apply"; exit 2; }
for p in "$@"; do
  out=$(cd $work/verif && VERIF_REPO=$work/repo VERIF_EVIDENCE_DIR=$work/verif/build/evidence-seeded ./check $p --tier quick 2>&1); rc=$?
  echo "--- $tag vs $p: exit=$rc"
  echo "$out" | grep -E "^VIOLATION|^KNOWN-FINDING|^  (oracle|mismatch|proof)|Traceback" | head -8
done
