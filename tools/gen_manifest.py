#!/usr/bin/env python3
"""Regenerates /verif/MANIFEST.json from vlib/props.py (claimed checks) and tools/not_applicable.json."""
import json, os, sys
ROOT = os.path.dirname(os.path.dirname(os.path.abspath(__file__)))
sys.path.insert(0, ROOT)
from vlib.props import PROPS
ALL = [json.loads(l)["id"] for l in open(os.path.join(ROOT, "properties.jsonl"))]
na = json.load(open(os.path.join(ROOT, "tools", "not_applicable.json")))
checks = []
for pid in ALL:
    if pid not in PROPS:
        continue
    c = PROPS[pid]
    checks.append(dict(
        property_id=pid,
        quick_cmd="./check %s --tier quick" % pid,
        thorough_cmd="./check %s --tier thorough" % pid,
        evidence_file="/verif/evidence/%s.json" % pid,
        replay_cmd_template="./check %s --replay {path}" % pid,
        engine="rocq-model+correspondence",
        level_claimed=dict(category="proof", text=c["level_text"], design_ref=c.get("design_ref", "DESIGN.md section 5, " + pid)),
        level_note=c["level_note"],
        technique=c.get("technique", "machine-checked proof in Rocq (Coq 8.16.1) over a hand-written executable model + per-run differential correspondence check against the Go code"),
    ))
m = dict(
    version=1,
    setup_cmd="./setup.sh",
    hooks=dict(guard="verif", enable="go build -tags verif (harness module with replace github.com/hack-pad/hackpadfs => /repo)",
               baseline_off_cmd="cd /repo && GOFLAGS=-mod=mod GOPROXY=off GOSUMDB=off go test -json -vet=off -count=1 -timeout 25m ./...",
               source_commits=json.load(open(os.path.join(ROOT, "tools", "hook_commits.json"))), add_only=True),
    engines=[dict(name="rocq-model+correspondence", path="/verif/check", serves_properties=[c["property_id"] for c in checks],
                  kind_free_text="Coq 8.16.1 theorems over hand-written executable Gallina models (coq/), tied to /repo on every run by a differential "
                                 "correspondence check: Go harness (harness/) runs generated cases on the real code, the model is evaluated on the same cases inside coqc (vm_compute)")],
    checks=checks,
    notes="See DESIGN.md. Every check: full make of coq/, re-compilation of Properties/<id>.v with Print Assumptions, harness rebuilt from /repo's working tree, "
          "cases from VERIF_SEED, property oracle on the implementation (failing-input search), in-kernel model evaluation (correspondence).",
    not_applicable=[dict(property_id=p, reason=na[p]) for p in ALL if p not in PROPS],
)
for p in ALL:
    if p not in PROPS and p not in na:
        raise SystemExit("property %s neither claimed nor listed in not_applicable.json" % p)
json.dump(m, open(os.path.join(ROOT, "MANIFEST.json"), "w"), indent=1)
print("MANIFEST.json:", len(checks), "claimed,", len(m["not_applicable"]), "not claimed")
